mod gen;
mod hist;
mod pools;
mod proj;
mod rawtopics;
mod rng;
mod run;
mod tree;
mod val;

use serde_json::Value as J;
use std::io::{BufRead, BufWriter, Write};

fn arg_val(args: &[String], name: &str) -> Option<String> {
    args.iter().position(|a| a == name).and_then(|i| args.get(i + 1).cloned())
}

fn main() {
    let args: Vec<String> = std::env::args().collect();
    if args.len() < 2 {
        eprintln!("usage: vh <replay|...>");
        std::process::exit(2);
    }
    run::silence_panics();
    let seed: u64 = arg_val(&args, "--seed").and_then(|s| s.parse().ok()).unwrap_or(1);
    match args[1].as_str() {
        "replay" => {
            // vh replay <cases.ndjson> <out.ndjson>
            let inp = std::fs::File::open(&args[2]).expect("cases file");
            let mut out = BufWriter::new(std::fs::File::create(&args[3]).expect("out file"));
            let mut rng = rng::Rng::new(seed);
            let mut n = 0usize;
            for line in std::io::BufReader::new(inp).lines() {
                let line = line.unwrap();
                if line.trim().is_empty() {
                    continue;
                }
                let j: J = serde_json::from_str(&line).expect("case json");
                match run::Case::from_json(&j) {
                    Some(c) => {
                        let o = run::run_case(&c, &mut rng);
                        writeln!(out, "{}", o).unwrap();
                        n += 1;
                    }
                    None => {
                        eprintln!("bad case: {}", line);
                        std::process::exit(2);
                    }
                }
            }
            eprintln!("replayed {} cases", n);
        }
        "drive" => {
            // vh drive <topic> --tier quick|thorough --seed S --n N --out FILE
            let topic = args[2].clone();
            let thorough = arg_val(&args, "--tier").map(|t| t == "thorough").unwrap_or(false);
            let n: usize = arg_val(&args, "--n").and_then(|s| s.parse().ok()).unwrap_or(1000);
            let outp = arg_val(&args, "--out").expect("--out");
            let mut out = BufWriter::new(std::fs::File::create(&outp).expect("out file"));
            {
                let mut cx = rawtopics::Raw { rng: rng::Rng::new(seed), thorough, n, out: &mut out, count: 0, prefix: topic.clone() };
                if rawtopics::run_raw_topic(&topic, &mut cx) {
                    let cnt = cx.count;
                    out.flush().unwrap();
                    eprintln!("drive {}: {} records", topic, cnt);
                    return;
                }
            }
            let mut run_rng = rng::Rng::new(seed ^ 0x5555);
            let mut written = 0usize;
            // --vm: an evenly spread sample of about n cases, each run once in form "vm" (compiled code and
            // interpreter steps recorded); cases marked for a child process stay in one, since a crash of the
            // code under test must not take the driver down
            let vm_form = args.iter().any(|a| a == "--vm");
            // --cases-only: write the generated cases without running them (input for `vh replay`)
            let cases_only = args.iter().any(|a| a == "--cases-only");
            let mut stride = 1usize;
            if vm_form {
                let mut total = 0usize;
                {
                    let mut count_only = |_c: run::Case| total += 1;
                    let mut cx = gen::Ctx { rng: rng::Rng::new(seed), thorough, n, emit: &mut count_only, count: 0, prefix: topic.clone() };
                    if !gen::run_topic(&topic, &mut cx) {
                        eprintln!("unknown topic {}", topic);
                        std::process::exit(2);
                    }
                }
                stride = std::cmp::max(1, total / std::cmp::max(1, n));
            }
            let offset = (seed as usize) % stride;
            let mut index = 0usize;
            {
                let mut emit = |mut c: run::Case| {
                    index += 1;
                    if vm_form {
                        if (index - 1) % stride != offset {
                            return;
                        }
                        c.forms = vec!["vm".to_string()];
                    }
                    if cases_only {
                        writeln!(out, "{}", c.to_json()).unwrap();
                        written += 1;
                        return;
                    }
                    let o = run::run_case(&c, &mut run_rng);
                    writeln!(out, "{}", o).unwrap();
                    written += 1;
                };
                let mut cx = gen::Ctx { rng: rng::Rng::new(seed), thorough, n, emit: &mut emit, count: 0, prefix: topic.clone() };
                if !gen::run_topic(&topic, &mut cx) {
                    eprintln!("unknown topic {}", topic);
                    std::process::exit(2);
                }
            }
            out.flush().unwrap();
            eprintln!("drive {}: {} cases", topic, written);
        }
        "replay-hist" => {
            // vh replay-hist <histories.ndjson> <out.ndjson>: TLC-generated API histories through the real API
            let inp = std::fs::File::open(&args[2]).expect("cases file");
            let mut out = BufWriter::new(std::fs::File::create(&args[3]).expect("out file"));
            let mut n = 0usize;
            for line in std::io::BufReader::new(inp).lines() {
                let line = line.unwrap();
                if line.trim().is_empty() {
                    continue;
                }
                let mut j: J = serde_json::from_str(&line).expect("history json");
                let mut steps: Vec<J> = j["steps"].as_array().cloned().unwrap_or_default();
                for s in steps.iter_mut() {
                    if let Some(o) = s.as_object_mut() {
                        o.remove("src");
                        o.remove("ok");
                    }
                }
                hist::run_history(&mut steps);
                n += 1;
                j["steps"] = J::Array(steps);
                j["id"] = J::from(format!("gen-api-{:07}", n));
                writeln!(out, "{}", j).unwrap();
            }
            eprintln!("replayed {} histories", n);
        }
        "child" => {
            // one case on stdin, its observation on stdout
            std::thread::spawn(|| {
                std::thread::sleep(std::time::Duration::from_secs(60));
                std::process::exit(97);
            });
            let mut line = String::new();
            std::io::stdin().read_line(&mut line).unwrap();
            let j: J = serde_json::from_str(&line).expect("case json");
            let c = run::Case::from_json(&j).expect("case");
            let mut rng = rng::Rng::new(seed);
            println!("{}", run::run_case(&c, &mut rng));
        }
        "child-src" => {
            // source text on stdin: compile and evaluate it, print the outcome
            std::thread::spawn(|| {
                std::thread::sleep(std::time::Duration::from_secs(60));
                std::process::exit(97);
            });
            let mut src = String::new();
            use std::io::Read;
            std::io::stdin().read_to_string(&mut src).unwrap();
            let work = move || {
                let res = std::panic::catch_unwind(|| {
                    let mut ctx = rscel::CelContext::new();
                    if let Err(e) = ctx.add_program_str("main", &src) {
                        return val::err_outcome(&e);
                    }
                    let mut b = rscel::BindContext::new();
                    b.bind_param("a", rscel::CelValue::from_null());
                    val::outcome(&ctx.exec("main", &b))
                });
                match res {
                    Ok(o) => o,
                    Err(p) => val::crash(&run::panic_msg(p)),
                }
            };
            let o = if args.iter().any(|a| a == "--thread") {
                std::thread::Builder::new().stack_size(2 * 1024 * 1024).spawn(work).unwrap().join().unwrap_or(val::crash("thread died"))
            } else {
                work()
            };
            // only the class travels back: the value of a deep ladder is itself deeply nested
            let mut o = o;
            if let Some(m) = o.as_object_mut() {
                m.remove("v");
            }
            println!("{}", o);
        }
        "consts" => {
            println!("ts_min {} ts_max {} ns_max {}", chrono::DateTime::<chrono::Utc>::MIN_UTC.timestamp(), chrono::DateTime::<chrono::Utc>::MAX_UTC.timestamp(), chrono::DateTime::<chrono::Utc>::MAX_UTC.timestamp_subsec_nanos());
            println!("dur_max_ms {} dur_min_ms {}", chrono::Duration::MAX.num_milliseconds(), chrono::Duration::MIN.num_milliseconds());
        }
        other => {
            eprintln!("unknown subcommand {}", other);
            std::process::exit(2);
        }
    }
}
