//! Running one expression case against the real API and recording what happened.
use crate::rng::Rng;
use crate::tree::{render, value_as_tree, Parens, T};
use crate::val::{crash, err_outcome, outcome, V};
use rscel::{BindContext, CelContext, CelError, CelValue};
use serde_json::{json, Value as J};
use std::cell::RefCell;
use std::collections::BTreeMap;
use std::panic::{catch_unwind, AssertUnwindSafe};

thread_local! {
    pub static CALL_LOG: RefCell<Vec<String>> = RefCell::new(Vec::new());
}

pub fn silence_panics() {
    std::panic::set_hook(Box::new(|_| {}));
}

pub fn panic_msg(p: Box<dyn std::any::Any + Send>) -> String {
    if let Some(s) = p.downcast_ref::<&str>() {
        s.to_string()
    } else if let Some(s) = p.downcast_ref::<String>() {
        s.clone()
    } else {
        "panic".to_string()
    }
}

#[derive(Clone, Debug)]
pub struct Case {
    pub id: String,
    pub tree: T,
    pub bind: BTreeMap<String, V>,
    pub progs: BTreeMap<String, T>,
    pub funcs: BTreeMap<String, J>, // name -> {"o":"ok","v":V} | {"o":"err","c":cls}
    pub forms: Vec<String>,
    pub extra: J,
}

impl Case {
    pub fn new(id: String, tree: T) -> Case {
        Case {
            id,
            tree,
            bind: BTreeMap::new(),
            progs: BTreeMap::new(),
            funcs: BTreeMap::new(),
            forms: vec!["bound".to_string()],
            extra: J::Null,
        }
    }

    pub fn from_json(j: &J) -> Option<Case> {
        let mut c = Case::new(j.get("id")?.as_str()?.to_string(), T::from_json(j.get("tree")?)?);
        if let Some(b) = j.get("bind").and_then(|b| b.as_object()) {
            for (k, v) in b {
                c.bind.insert(k.clone(), V::from_json(v)?);
            }
        }
        if let Some(b) = j.get("progs").and_then(|b| b.as_object()) {
            for (k, v) in b {
                c.progs.insert(k.clone(), T::from_json(v)?);
            }
        }
        if let Some(b) = j.get("funcs").and_then(|b| b.as_object()) {
            for (k, v) in b {
                c.funcs.insert(k.clone(), v.clone());
            }
        }
        if let Some(f) = j.get("forms").and_then(|f| f.as_array()) {
            c.forms = f.iter().filter_map(|x| x.as_str().map(|s| s.to_string())).collect();
        }
        if let Some(x) = j.get("extra") {
            c.extra = x.clone();
        }
        Some(c)
    }

    pub fn to_json(&self) -> J {
        let mut o = json!({
            "id": self.id,
            "tree": self.tree.to_json(),
            "bind": self.bind.iter().map(|(k, v)| (k.clone(), v.to_json())).collect::<serde_json::Map<_, _>>(),
            "progs": self.progs.iter().map(|(k, v)| (k.clone(), v.to_json())).collect::<serde_json::Map<_, _>>(),
            "funcs": self.funcs.iter().map(|(k, v)| (k.clone(), v.clone())).collect::<serde_json::Map<_, _>>(),
            "forms": self.forms,
        });
        if !self.extra.is_null() {
            o["extra"] = self.extra.clone();
        }
        o
    }
}

fn func_result(spec: &J) -> CelValue {
    match spec.get("o").and_then(|o| o.as_str()) {
        Some("ok") => spec
            .get("v")
            .and_then(V::from_json)
            .and_then(|v| v.to_cel())
            .unwrap_or(CelValue::from_null()),
        Some("err") => match spec.get("c").and_then(|c| c.as_str()) {
            Some("absent") => CelValue::from_err(CelError::binding("verif_absent")),
            _ => CelValue::from_err(CelError::value("verif failure")),
        },
        _ => CelValue::from_null(),
    }
}

pub struct Prepared {
    pub main_src: String,
    pub prog_srcs: BTreeMap<String, String>,
    pub params: BTreeMap<String, V>,
    pub json_bind: bool,
}

/// What is compiled and what is bound for one form of a case.
pub fn prepare(case: &Case, form: &str, rng: &mut Rng) -> Prepared {
    let mut params = case.bind.clone();
    let mut tree = case.tree.clone();
    let mut progs = case.progs.clone();
    let mut parens = Parens::Min;
    let mut ws = false;
    let mut json_bind = false;
    match form {
        "bound" => {}
        "lit" | "mixed" => {
            // literals for every expressible bound value (mixed: a seeded subset)
            let mut chosen: BTreeMap<String, T> = BTreeMap::new();
            for (k, v) in case.bind.iter() {
                if form == "mixed" && rng.below(2) == 0 {
                    continue;
                }
                if let Some(t) = value_as_tree(v) {
                    chosen.insert(k.clone(), t);
                }
            }
            // a name that is also a stored program keeps resolving to the variable first: fine
            let sub = |n: &str| chosen.get(n).cloned();
            tree = tree.subst(&sub);
            // a stored program is evaluated under the bindings of the site that references it, loop
            // variables included: names used as loop variables anywhere stay variables inside programs
            let mut lv = Vec::new();
            crate::tree::loop_vars(&case.tree, &mut lv);
            for p in case.progs.values() {
                crate::tree::loop_vars(p, &mut lv);
            }
            let subp = |n: &str| if lv.iter().any(|x| x == n) { None } else { chosen.get(n).cloned() };
            let mut keep: Vec<String> = Vec::new();
            for (_, p) in progs.iter_mut() {
                *p = p.subst(&subp);
            }
            for n in lv.iter() {
                if chosen.contains_key(n) && case.progs.values().any(|p| mentions(p, n)) {
                    keep.push(n.clone());
                }
            }
            for n in keep {
                chosen.remove(&n);
            }
            for k in chosen.keys() {
                params.remove(k);
            }
        }
        f if f.starts_with("sub:") => {
            // literals for the variables selected by the mask (in sorted name order)
            let mask = &f[4..];
            let mut chosen: BTreeMap<String, T> = BTreeMap::new();
            for (i, (k, v)) in case.bind.iter().enumerate() {
                if mask.as_bytes().get(i) == Some(&b'1') {
                    if let Some(t) = value_as_tree(v) {
                        chosen.insert(k.clone(), t);
                    }
                }
            }
            let mut lv = Vec::new();
            crate::tree::loop_vars(&case.tree, &mut lv);
            for p in case.progs.values() {
                crate::tree::loop_vars(p, &mut lv);
            }
            for n in lv.iter() {
                if case.progs.values().any(|p| mentions(p, n)) {
                    chosen.remove(n);
                }
            }
            let sub = |n: &str| chosen.get(n).cloned();
            tree = tree.subst(&sub);
            for (_, p) in progs.iter_mut() {
                *p = p.subst(&sub);
            }
            for k in chosen.keys() {
                params.remove(k);
            }
        }
        "json" => json_bind = true,
        "full" => parens = Parens::Full,
        "randparen" => parens = Parens::Random,
        "ws" => ws = true,
        "wsparen" => {
            ws = true;
            parens = Parens::Random
        }
        _ => {}
    }
    let main_src = render(&tree, parens, ws, rng);
    let prog_srcs = progs.iter().map(|(k, t)| (k.clone(), render(t, parens, ws, rng))).collect();
    Prepared { main_src, prog_srcs, params, json_bind }
}

fn mentions(t: &T, name: &str) -> bool {
    let mut found = false;
    let probe = |n: &str| {
        if n == name {
            Some(T::Id("\u{1}hit".to_string()))
        } else {
            None
        }
    };
    let r = t.subst(&probe);
    if r != *t {
        found = true;
    }
    found
}

pub struct Executed {
    pub out: J,
    pub log: Vec<String>,
    pub bind_after_ok: bool,
    /// form "vm": the compiled code of every program and the interpreter's step events
    pub vm: J,
}

/// The interpreter's events (cfg(rscel_verif) tracer) in the encoding of Trace_VM.tla.
fn events_json(evs: &[rscel::verif::Event]) -> J {
    use rscel::verif::{Event, StackItem};
    J::Array(
        evs.iter()
            .map(|e| match e {
                Event::Enter { frame, parent, guard, code, params, detached } => json!({
                    "e":"enter","f":frame,"p":parent,"g":guard,"detached":detached,"code":crate::proj::code_inline(code),
                    "vars": params.iter().map(|(k, v)| (k.clone(), crate::val::project(v).to_json())).collect::<serde_json::Map<_, _>>(),
                }),
                Event::Step { frame, pc, stack } => json!({
                    "e":"step","f":frame,"pc":pc,
                    "st": stack.iter().map(|i| match i {
                        StackItem::Value(v) => crate::proj::value_inline(v),
                        StackItem::BoundCall(v) => json!({"t":"bound","recv":crate::proj::value_inline(v)}),
                    }).collect::<Vec<_>>(),
                }),
                Event::Exit { frame } => json!({"e":"exit","f":frame}),
            })
            .collect(),
    )
}

pub const VM_EVENT_LIMIT: usize = 3000;

/// Compile and execute under catch_unwind.  `main` is the name of the program to run.
pub fn execute(p: &Prepared, funcs: &BTreeMap<String, J>) -> Executed {
    execute_traced(p, funcs, None)
}

/// `names`: record the interpreter's steps, looking these names up in each activation's bindings.
pub fn execute_traced(p: &Prepared, funcs: &BTreeMap<String, J>, names: Option<Vec<String>>) -> Executed {
    let mut vm = J::Null;
    CALL_LOG.with(|l| l.borrow_mut().clear());
    let closures: Vec<(String, Box<dyn Fn(CelValue, Vec<CelValue>) -> CelValue>)> = funcs
        .iter()
        .map(|(name, spec)| {
            let n = name.clone();
            let spec = spec.clone();
            let f: Box<dyn Fn(CelValue, Vec<CelValue>) -> CelValue> = Box::new(move |_this, _args| {
                CALL_LOG.with(|l| l.borrow_mut().push(n.clone()));
                func_result(&spec)
            });
            (name.clone(), f)
        })
        .collect();
    let mut bind_after_ok = true;
    let res = catch_unwind(AssertUnwindSafe(|| {
        let mut ctx = CelContext::new();
        for (name, src) in p.prog_srcs.iter() {
            if let Err(e) = ctx.add_program_str(name, src) {
                return err_outcome(&e);
            }
        }
        if let Err(e) = ctx.add_program_str("main", &p.main_src) {
            return err_outcome(&e);
        }
        let mut b = BindContext::new();
        if p.json_bind {
            let mut obj = serde_json::Map::new();
            for (k, v) in p.params.iter() {
                match v.to_plain_json() {
                    Some(j) => {
                        obj.insert(k.clone(), j);
                    }
                    None => {
                        if let Some(c) = v.to_cel() {
                            b.bind_param(k, c)
                        }
                    }
                }
            }
            let _ = b.bind_params_from_json_obj(J::Object(obj));
        } else {
            for (k, v) in p.params.iter() {
                if let Some(c) = v.to_cel() {
                    b.bind_param(k, c);
                }
            }
        }
        for (name, f) in closures.iter() {
            b.bind_func(name, f.as_ref());
        }
        if let Some(names) = names.as_ref() {
            let code_of = |n: &str| {
                ctx.get_program(n)
                    .map(|p| crate::proj::code_inline(&p.bytecode().iter().cloned().collect::<Vec<_>>()))
                    .unwrap_or(J::Null)
            };
            vm = json!({
                "blocks": [code_of("main")],
                "pblocks": p.prog_srcs.keys().map(|k| (k.clone(), json!([code_of(k)]))).collect::<serde_json::Map<_, _>>(),
            });
            rscel::verif::install(VM_EVENT_LIMIT, names.clone());
        }
        let r = ctx.exec("main", &b);
        if names.is_some() {
            let evs = rscel::verif::take();
            vm["events"] = events_json(&evs);
            vm["truncated"] = J::from(evs.len() >= VM_EVENT_LIMIT);
        }
        // the caller's bindings must be what they were
        for (k, v) in p.params.iter() {
            if let (Some(now), Some(c)) = (b.get_param(k), v.to_cel()) {
                if crate::val::project(now).to_json() != crate::val::project(&c).to_json() {
                    bind_after_ok = false;
                }
            }
        }
        outcome(&r)
    }));
    let out = match res {
        Ok(o) => o,
        Err(p) => crash(&panic_msg(p)),
    };
    let log = CALL_LOG.with(|l| l.borrow().clone());
    Executed { out, log, bind_after_ok, vm }
}

/// Run one case in a child process (a stack overflow or abort must not take the harness down).
pub fn run_case_in_child(case: &Case, seed: u64) -> J {
    use std::io::Write;
    use std::process::{Command, Stdio};
    let exe = std::env::current_exe().expect("exe");
    let mut child = Command::new(exe)
        .arg("child")
        .arg("--seed")
        .arg(seed.to_string())
        .stdin(Stdio::piped())
        .stdout(Stdio::piped())
        .stderr(Stdio::null())
        .spawn()
        .expect("spawn child");
    {
        let mut stdin = child.stdin.take().unwrap();
        let mut c = case.clone();
        if let Some(o) = c.extra.as_object_mut() {
            o.remove("child");
        }
        writeln!(stdin, "{}", c.to_json()).unwrap();
    }
    // the child enforces its own 60 s watchdog (exit code 97)
    let out = child.wait_with_output().expect("child output");
    let text = String::from_utf8_lossy(&out.stdout);
    if out.status.success() {
        if let Some(line) = text.lines().find(|l| l.starts_with('{')) {
            if let Ok(j) = serde_json::from_str::<J>(line) {
                return j;
            }
        }
    }
    let what = if out.status.code() == Some(97) { "timeout in child".to_string() } else { format!("child died: {:?}", out.status) };
    let mut j = case.to_json();
    j["obs"] = J::Array(case.forms.iter().map(|f| json!({"form": f, "src": "", "out": crash(&what), "log": []})).collect());
    j
}

pub fn run_case(case: &Case, rng: &mut Rng) -> J {
    if case.extra.get("child").and_then(|c| c.as_bool()) == Some(true) {
        return run_case_in_child(case, rng.next());
    }
    let mut obs = Vec::new();
    for form in case.forms.iter() {
        if form == "thread" {
            // the same evaluation on a spawned thread with a 2 MB stack
            let p = prepare(case, "bound", rng);
            let funcs = case.funcs.clone();
            let src = p.main_src.clone();
            let h = std::thread::Builder::new().stack_size(2 * 1024 * 1024).spawn(move || {
                let e = execute(&p, &funcs);
                (e.out, e.log, e.bind_after_ok)
            });
            let (out, log, ok) = match h.map(|h| h.join()) {
                Ok(Ok(r)) => r,
                _ => (crash("thread died"), vec![], true),
            };
            obs.push(json!({"form": form, "src": src, "out": out, "log": log, "bind_ok": ok}));
            continue;
        }
        if form == "alt" || form == "altlit" {
            // the case's second tree (extra.alt), which the property says is the same thing: bound / literal form
            if let Some(alt) = case.extra.get("alt").and_then(T::from_json) {
                let mut c2 = case.clone();
                c2.tree = alt;
                let p = prepare(&c2, if form == "alt" { "bound" } else { "lit" }, rng);
                let e = execute(&p, &case.funcs);
                obs.push(json!({"form": form, "src": p.main_src, "out": e.out, "log": e.log, "bind_ok": e.bind_after_ok}));
            }
            continue;
        }
        if form == "vm" {
            // the bound form with the compiled code and the interpreter's steps recorded
            let p = prepare(case, "bound", rng);
            let mut names: Vec<String> = Vec::new();
            crate::tree::ident_names(&case.tree, &mut names);
            for t in case.progs.values() {
                crate::tree::ident_names(t, &mut names);
            }
            names.extend(case.bind.keys().cloned());
            names.sort();
            names.dedup();
            let e = execute_traced(&p, &case.funcs, Some(names));
            let mut o = json!({"form": form, "src": p.main_src, "out": e.out, "log": e.log, "bind_ok": e.bind_after_ok});
            if !e.vm.is_null() {
                o["vm"] = e.vm; // absent when a program did not compile (the Json module of TLC has no null)
            }
            obs.push(o);
            continue;
        }
        let p = prepare(case, form, rng);
        let e = execute(&p, &case.funcs);
        obs.push(json!({"form": form, "src": p.main_src, "out": e.out, "log": e.log, "bind_ok": e.bind_after_ok}));
    }
    let mut j = case.to_json();
    j["obs"] = J::Array(obs);
    j
}
