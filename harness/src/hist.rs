//! API histories (C11): executing a sequence of context/binding operations against the real
//! objects and recording, after every call, what the objects now hold.
use crate::rng::Rng;
use crate::tree::*;
use crate::val::{outcome, project, V};
use rscel::{BindContext, CelContext};
use serde_json::{json, Value as J};
use std::collections::BTreeMap;

fn uf_k7(_this: rscel::CelValue, _args: Vec<rscel::CelValue>) -> rscel::CelValue {
    rscel::CelValue::from_int(7)
}
fn uf_k9(_this: rscel::CelValue, _args: Vec<rscel::CelValue>) -> rscel::CelValue {
    rscel::CelValue::from_int(9)
}
fn uf_kerr(_this: rscel::CelValue, _args: Vec<rscel::CelValue>) -> rscel::CelValue {
    rscel::CelValue::from_err(rscel::CelError::value("model function kerr fails"))
}
/// The user functions of Api.tla's FuncModel.
fn user_func(id: &str) -> &'static rscel::RsCelFunction {
    match id {
        "k7" => &uf_k7,
        "k9" => &uf_k9,
        _ => &uf_kerr,
    }
}
pub const FUNCS: &[&str] = &["f", "g"];

pub struct World<'a> {
    pub ctxs: BTreeMap<u64, CelContext>,
    pub binds: BTreeMap<u64, BindContext<'a>>,
    pub bound: BTreeMap<u64, BTreeMap<String, V>>, // names this harness bound, per object (to read them back)
    pub ufuncs: BTreeMap<u64, BTreeMap<String, String>>, // which model function this harness bound under a name, per object
}

impl<'a> World<'a> {
    pub fn new() -> World<'a> {
        World { ctxs: BTreeMap::new(), binds: BTreeMap::new(), bound: BTreeMap::new(), ufuncs: BTreeMap::new() }
    }

    pub fn state(&self) -> J {
        let mut ctxs = serde_json::Map::new();
        for (id, c) in self.ctxs.iter() {
            let mut progs = serde_json::Map::new();
            // program names this history may have used
            for n in NAMES {
                if let Some(p) = c.get_program(n) {
                    progs.insert(n.to_string(), J::from(p.source().unwrap_or("<none>").to_string()));
                }
            }
            ctxs.insert(id.to_string(), J::Object(progs));
        }
        let mut binds = serde_json::Map::new();
        for (id, b) in self.binds.iter() {
            let mut vals = serde_json::Map::new();
            for n in VARS {
                if let Some(v) = b.get_param(n) {
                    vals.insert(n.to_string(), project(v).to_json());
                }
            }
            binds.insert(id.to_string(), J::Object(vals));
        }
        let mut funcs = serde_json::Map::new();
        for (id, b) in self.binds.iter() {
            // presence is observed on the real object; which model function it is, is what this harness bound last
            let mut m = serde_json::Map::new();
            for n in FUNCS.iter().copied().filter(|n| b.get_func(n).is_some()) {
                m.insert(n.to_string(), J::from(self.ufuncs.get(id).and_then(|u| u.get(n)).cloned().unwrap_or_else(|| "?".to_string())));
            }
            funcs.insert(id.to_string(), J::Object(m));
        }
        json!({"ctxs": ctxs, "binds": binds, "funcs": funcs})
    }

    /// Executes one event in place; fills in the observed fields and the state afterwards.
    pub fn step(&mut self, ev: &mut J) {
        let a = ev["a"].as_str().unwrap_or("").to_string();
        let c = ev.get("c").and_then(|x| x.as_u64()).unwrap_or(0);
        let b = ev.get("b").and_then(|x| x.as_u64()).unwrap_or(0);
        match a.as_str() {
            "NewCtx" => {
                self.ctxs.insert(c, CelContext::new());
            }
            "CloneCtx" => {
                let as_ = ev["as"].as_u64().unwrap();
                let cl = self.ctxs[&c].clone();
                self.ctxs.insert(as_, cl);
            }
            "AddProgram" => {
                let t = T::from_json(&ev["tree"]).expect("tree");
                let src = render_min(&t);
                let n = ev["n"].as_str().unwrap().to_string();
                let precompiled = ev.get("pre").and_then(|p| p.as_bool()).unwrap_or(false);
                let ok = if precompiled {
                    match rscel::Program::from_source(&src) {
                        Ok(p) => {
                            self.ctxs.get_mut(&c).unwrap().add_program(&n, p);
                            true
                        }
                        Err(_) => false,
                    }
                } else {
                    self.ctxs.get_mut(&c).unwrap().add_program_str(&n, &src).is_ok()
                };
                ev["src"] = J::from(src);
                ev["ok"] = J::from(ok);
            }
            "NewBind" => {
                self.binds.insert(b, BindContext::new());
            }
            "CloneBind" => {
                let as_ = ev["as"].as_u64().unwrap();
                let cl = self.binds[&b].clone();
                self.binds.insert(as_, cl);
                let u = self.ufuncs.get(&b).cloned().unwrap_or_default();
                self.ufuncs.insert(as_, u);
            }
            "BindParam" => {
                let n = ev["n"].as_str().unwrap().to_string();
                let v = V::from_json(&ev["v"]).expect("value");
                let via_json = ev.get("json").and_then(|p| p.as_bool()).unwrap_or(false);
                let bc = self.binds.get_mut(&b).unwrap();
                match (via_json, v.to_plain_json()) {
                    (true, Some(pj)) => {
                        let mut o = serde_json::Map::new();
                        o.insert(n.clone(), pj);
                        let _ = bc.bind_params_from_json_obj(J::Object(o));
                    }
                    _ => bc.bind_param(&n, v.to_cel().expect("bindable")),
                }
            }
            "BindFunc" => {
                let n = ev["n"].as_str().unwrap().to_string();
                let f = ev["f"].as_str().unwrap().to_string();
                self.binds.get_mut(&b).unwrap().bind_func(&n, user_func(&f));
                self.ufuncs.entry(b).or_default().insert(n, f);
            }
            "SerRound" => {
                // the stored program of one context through serialization and back, stored in a context under a name
                let n = ev["n"].as_str().unwrap().to_string();
                let to = ev["to"].as_u64().unwrap();
                let as_ = ev["as"].as_str().unwrap().to_string();
                let back: Option<rscel::Program> = self.ctxs[&c].get_program(&n).and_then(|p| {
                    if ev["fmt"] == "json" {
                        serde_json::to_string(p).ok().and_then(|s| serde_json::from_str::<rscel::Program>(&s).ok())
                    } else {
                        bincode::serialize(p).ok().and_then(|s| bincode::deserialize::<rscel::Program>(&s).ok())
                    }
                });
                ev["ok"] = J::from(back.is_some());
                if let Some(p) = back {
                    self.ctxs.get_mut(&to).unwrap().add_program(&as_, p);
                }
            }
            "Exec" => {
                let n = ev["n"].as_str().unwrap().to_string();
                let ctx = self.ctxs.get_mut(&c).unwrap();
                let bind = &self.binds[&b];
                let r = std::panic::catch_unwind(std::panic::AssertUnwindSafe(|| outcome(&ctx.exec(&n, bind))));
                ev["out"] = r.unwrap_or_else(|p| crate::val::crash(&crate::run::panic_msg(p)));
            }
            "Details" => {
                let n = ev["n"].as_str().unwrap().to_string();
                let ctx = &self.ctxs[&c];
                match ctx.program_details(&n) {
                    Some(d) => {
                        ev["found"] = J::from(true);
                        ev["src"] = J::from(d.source().unwrap_or("<none>").to_string());
                        let mut ps: Vec<String> = d.params().iter().map(|s| s.to_string()).collect();
                        ps.sort();
                        ev["params"] = json!(ps);
                    }
                    None => {
                        ev["found"] = J::from(false);
                        ev["src"] = J::from("");
                    }
                }
            }
            _ => {}
        }
        ev["state"] = self.state();
    }
}

// "x" and "y" are also variable names, "p" is also a variable: a name can be a program and a variable at once (the variable wins)
pub const NAMES: &[&str] = &["p", "q", "r", "s", "t", "u", "v8", "w", "x", "y"];
pub const VARS: &[&str] = &["x", "y", "z", "k", "p"];

fn sources(r: &mut Rng) -> T {
    let x = || id("x");
    let cased = || T::Map(["id", "ID", "Id", "iD", "key"].iter().enumerate().map(|(i, k)| (lit(V::Str(k.to_string())), lit(V::Int(i as i64)))).collect());
    match r.below(25) {
        // user functions (BindFunc): not callable until bound, bound per binding object, replaced by rebinding
        21 => call("f", vec![x()]),
        22 => bin("+", call("f", vec![]), call("g", vec![lit(V::Int(1)), id("y")])),
        23 => call("coalesce", vec![call("g", vec![]), lit(V::Int(0))]),
        24 => mcall(id("z"), "map", vec![id("e"), call("f", vec![id("e")])]),
        // a comparison of maps in which one entry differs and another one fails (y = 0): one outcome, whatever the hash state
        17 => bin("==", T::Map(vec![(lit(V::Str("a".into())), x()), (lit(V::Str("b".into())), bin("/", lit(V::Int(10)), id("y"))), (lit(V::Str("c".into())), lit(V::Int(1)))]),
                  T::Map(vec![(lit(V::Str("a".into())), lit(V::Int(2))), (lit(V::Str("b".into())), bin("/", lit(V::Int(10)), id("y"))), (lit(V::Str("c".into())), lit(V::Int(1)))])),
        // regular expressions, well formed and not
        18 => mcall(lit(V::Str("abab".into())), "matches", vec![lit(V::Str("a(b)".into()))]),
        19 => mcall(lit(V::Str("abab".into())), "matches", vec![lit(V::Str("a(b".into()))]),
        20 => mcall(lit(V::Str("abab".into())), "matches", vec![id("k")]),
        14 => mcall(cased(), "map", vec![id("e"), id("e")]),                   // one fixed order, also for keys that differ in case only
        15 => mcall(cased(), "filter", vec![id("e"), bin("!=", id("e"), lit(V::Str("key".into())))]),
        16 => mcall(id("k"), "map", vec![id("e"), id("e")]),
        0 => bin("+", x(), lit(V::Int(1))),
        1 => bin("+", id("q"), lit(V::Int(1))),                                // references another program
        2 => mcall(T::List(vec![lit(V::Int(1)), lit(V::Int(2))]), "map", vec![id("e"), bin("+", id("e"), x())]), // macro
        3 => bin("*", id("y"), id("p")),
        4 => tern(bin(">", x(), lit(V::Int(0))), id("r"), id("s")),
        5 => lit(V::Int(r.range(0, 5))),
        6 => call("size", vec![T::List(vec![x(), id("y")])]),
        7 => bin("||", id("z"), bin(">", id("q"), lit(V::Int(2)))),
        8 => call("coalesce", vec![id("k"), id("t"), lit(V::Int(0))]),
        9 => call("has", vec![id("u")]),
        10 => T::FStr(vec![Seg::Lit("v=".into()), Seg::Expr(x())]),
        11 => bin("/", lit(V::Int(10)), x()),
        12 => mcall(id("z"), "filter", vec![id("e"), bin(">", id("e"), id("y"))]),
        _ => id(r.pick_str(NAMES)),
    }
}

fn values(r: &mut Rng) -> V {
    match r.below(10) {
        8 | 9 => V::Map(vec![("A".to_string(), V::Int(1)), ("Ab".to_string(), V::Int(4)), ("a".to_string(), V::Int(2)), ("aB".to_string(), V::Int(5)), ("ab".to_string(), V::Int(3))]),
        0 => V::Int(0),
        1 => V::Int(r.range(-3, 7)),
        2 => V::Bool(r.chance(1, 2)),
        3 => V::List(vec![V::Int(1), V::Int(5), V::Int(r.range(0, 9))]),
        4 => V::Str("s".into()),
        5 => V::Null,
        6 => V::Dbl(1.5),
        _ => V::Uint(r.below(4)),
    }
}

/// A random history of `len` steps over up to `nobj` contexts and binding objects.
pub fn random_history(r: &mut Rng, len: usize, first_ctx: u64, first_bind: u64) -> Vec<J> {
    let mut steps = vec![json!({"a":"NewCtx","c":first_ctx}), json!({"a":"NewBind","b":first_bind})];
    let mut ctxs = vec![first_ctx];
    let mut binds = vec![first_bind];
    let mut next = first_ctx.max(first_bind) + 1;
    // a prelude so that most executions have something to compute
    if r.chance(4, 5) {
        for (n, v) in [("x", V::Int(3)), ("y", V::Int(2)), ("z", V::List(vec![V::Int(1), V::Int(4)]))] {
            if r.chance(3, 4) {
                steps.push(json!({"a":"BindParam","b":first_bind,"n":n,"v":v.to_json()}));
            }
        }
        for n in ["p", "q", "r", "s", "t"] {
            if r.chance(3, 4) {
                steps.push(json!({"a":"AddProgram","c":first_ctx,"n":n,"tree":sources(r).to_json()}));
            }
        }
    }
    for _ in 0..len {
        let c = *r.pick(&ctxs);
        let b = *r.pick(&binds);
        let ev = match r.below(24) {
            20 | 21 => json!({"a":"BindFunc","b":b,"n":r.pick_str(FUNCS),"f":r.pick_str(&["k7", "k9", "kerr"])}),
            22 | 23 => json!({"a":"SerRound","c":c,"n":r.pick_str(NAMES),"fmt":if r.chance(1, 2) { "json" } else { "bincode" },"to":*r.pick(&ctxs),"as":r.pick_str(NAMES)}),
            0 => {
                ctxs.push(next);
                next += 1;
                json!({"a":"NewCtx","c":next - 1})
            }
            1 | 2 => {
                ctxs.push(next);
                next += 1;
                json!({"a":"CloneCtx","c":c,"as":next - 1})
            }
            3..=6 => json!({"a":"AddProgram","c":c,"n":r.pick_str(NAMES),"tree":sources(r).to_json(),"pre":r.chance(1, 4)}),
            7 => {
                binds.push(next);
                next += 1;
                json!({"a":"NewBind","b":next - 1})
            }
            8 | 9 => {
                binds.push(next);
                next += 1;
                json!({"a":"CloneBind","b":b,"as":next - 1})
            }
            10..=12 => json!({"a":"BindParam","b":b,"n":r.pick_str(VARS),"v":values(r).to_json(),"json":r.chance(1, 4)}),
            13 => json!({"a":"Details","c":c,"n":r.pick_str(NAMES)}),
            _ => json!({"a":"Exec","c":c,"b":b,"n":r.pick_str(NAMES)}),
        };
        steps.push(ev);
    }
    steps
}

/// Determinism probes (C11): the same source compiled into several contexts, the same values bound into several
/// binding objects, every pairing executed more than once.  All executions have equal inputs.
pub fn probe_history(which: usize) -> Vec<J> {
    let cased = || T::Map(["id", "ID", "Id", "iD", "key"].iter().enumerate().map(|(i, k)| (lit(V::Str(k.to_string())), lit(V::Int(i as i64)))).collect());
    if which % 8 >= 4 {
        // state that must not survive from one execution to the next on a thread: a well-formed pattern, a malformed one,
        // the malformed one again; a comparison of maps with a differing and a failing entry, repeated
        let pats = [("p", "a(b)"), ("q", "a(b"), ("r", "[a-"), ("s", "b+")];
        let mut steps = vec![json!({"a":"NewCtx","c":1}), json!({"a":"NewBind","b":2}), json!({"a":"BindParam","b":2,"n":"y","v":V::Int(0).to_json()}), json!({"a":"BindParam","b":2,"n":"x","v":V::Int(1).to_json()})];
        for (n, p) in pats {
            steps.push(json!({"a":"AddProgram","c":1,"n":n,"tree":mcall(lit(V::Str("abab".into())), "matches", vec![lit(V::Str(p.into()))]).to_json()}));
        }
        let meq = bin("==", T::Map(vec![(lit(V::Str("a".into())), id("x")), (lit(V::Str("b".into())), bin("/", lit(V::Int(10)), id("y"))), (lit(V::Str("c".into())), lit(V::Int(1))), (lit(V::Str("d".into())), lit(V::Int(1)))]),
                      T::Map(vec![(lit(V::Str("a".into())), lit(V::Int(2))), (lit(V::Str("b".into())), bin("/", lit(V::Int(10)), id("y"))), (lit(V::Str("c".into())), lit(V::Int(1))), (lit(V::Str("d".into())), lit(V::Int(1)))]));
        steps.push(json!({"a":"AddProgram","c":1,"n":"t","tree":meq.to_json()}));
        for n in ["p", "q", "q", "r", "s", "r", "q", "p", "t", "t", "t", "t", "t", "t"] {
            steps.push(json!({"a":"Exec","c":1,"b":2,"n":n}));
        }
        return steps;
    }
    let src = match which % 4 {
        0 => mcall(cased(), "map", vec![id("e"), id("e")]),
        1 => mcall(cased(), "filter", vec![id("e"), bin("!=", id("e"), lit(V::Str("key".into())))]),
        2 => mcall(id("k"), "map", vec![id("e"), id("e")]),
        _ => mcall(id("k"), "filter", vec![id("e"), bin("!=", id("e"), lit(V::Str("ab".into())))]),
    };
    let kv = V::Map(vec![("A".to_string(), V::Int(1)), ("Ab".to_string(), V::Int(4)), ("a".to_string(), V::Int(2)), ("aB".to_string(), V::Int(5)), ("ab".to_string(), V::Int(3))]);
    let mut steps = Vec::new();
    for c in 1..=3u64 {
        steps.push(json!({"a":"NewCtx","c":c}));
        steps.push(json!({"a":"AddProgram","c":c,"n":"p","tree":src.to_json(),"pre":c == 3}));
    }
    for b in 4..=6u64 {
        steps.push(json!({"a":"NewBind","b":b}));
        steps.push(json!({"a":"BindParam","b":b,"n":"k","v":kv.to_json()}));
    }
    for _ in 0..2 {
        for c in 1..=3u64 {
            for b in 4..=6u64 {
                steps.push(json!({"a":"Exec","c":c,"b":b,"n":"p"}));
            }
        }
    }
    steps
}

pub fn run_history(steps: &mut Vec<J>) {
    let mut w = World::new();
    for ev in steps.iter_mut() {
        w.step(ev);
    }
    // every final Exec is also compared with a context built from scratch: appended as extra steps
}
