//! Boundary value pools (the "grid" of C03/C04 and the pool of C01) and random value generators.
use crate::rng::Rng;
use crate::val::V;

pub fn ints() -> Vec<i64> {
    let mut v = vec![0, 1, -1, 2, -2, 3, 7, -7, 10, 255, 256];
    for p in [15u32, 16, 31, 32, 52, 53, 62] {
        let x = 1i64 << p;
        v.extend([x - 1, x, x + 1, -x + 1, -x, -x - 1]);
    }
    v.extend([i64::MAX, i64::MAX - 1, i64::MIN, i64::MIN + 1, 3037000499, 3037000500, -3037000500]);
    v.sort();
    v.dedup();
    v
}

pub fn uints() -> Vec<u64> {
    let mut v = vec![0u64, 1, 2, 3, 7, 10, 255];
    for p in [31u32, 32, 53, 63] {
        let x = 1u64 << p;
        v.extend([x - 1, x, x + 1]);
    }
    v.extend([u64::MAX, u64::MAX - 1, 4294967295, 4294967296]);
    v.sort();
    v.dedup();
    v
}

pub fn doubles() -> Vec<f64> {
    let p53 = 9007199254740992.0f64;
    vec![
        0.0, -0.0, 1.0, -1.0, 0.5, -0.5, 1.5, 2.5, -2.5, 0.1, 0.2, 3.0,
        5e-324, -5e-324, 2.2250738585072014e-308, 2.225073858507201e-308,
        f64::MAX, f64::MIN, f64::INFINITY, f64::NEG_INFINITY, f64::NAN,
        p53 - 1.0, p53, p53 + 2.0, -p53,
        9223372036854775808.0, -9223372036854775808.0, 18446744073709551616.0, 9223372036854774784.0,
        2147483648.0, 1e22, 1e23, 1e-7,
    ]
}

pub fn small_numeric() -> Vec<V> {
    let mut v = Vec::new();
    for i in [0i64, 1, -1, 2, 5, i64::MAX, i64::MIN, 1 << 53] {
        v.push(V::Int(i));
    }
    for u in [0u64, 1, 2, 5, u64::MAX, 1 << 63] {
        v.push(V::Uint(u));
    }
    for d in [0.0, -0.0, 1.0, -1.0, 2.5, f64::INFINITY, f64::NEG_INFINITY, f64::NAN, 9007199254740993.0, 5e-324] {
        v.push(V::Dbl(d));
    }
    v.push(V::Bool(true));
    v.push(V::Bool(false));
    v
}

pub const TS_MIN: i128 = -8334601228800 * 1_000_000_000;
pub const TS_MAX: i128 = 8210266876799 * 1_000_000_000 + 999_999_999;

pub fn non_numeric() -> Vec<V> {
    vec![
        V::Str(String::new()),
        V::Str("a".into()),
        V::Str("é".into()),
        V::Str("ab".into()),
        V::Bytes(vec![]),
        V::Bytes(vec![0xff]),
        V::Bytes(vec![97]),
        V::List(vec![]),
        V::List(vec![V::Int(0)]),
        V::Map(vec![]),
        V::Map(vec![("a".into(), V::Int(0))]),
        V::Null,
        V::Type("int".into()),
        V::Ts(0),
        V::Ts(1_700_000_000_123_000_000),
        V::Dur(0),
        V::Dur(90_061_001_000_000),
        V::Dur(-1_500_000_000),
    ]
}

pub fn time_edges() -> Vec<V> {
    vec![
        V::Ts(TS_MIN),
        V::Ts(TS_MAX),
        V::Ts(-62135596800 * 1_000_000_000),
        V::Ts(253402300799 * 1_000_000_000 + 999_999_999),
        V::Dur(i64::MAX as i128 * 1_000_000),
        V::Dur(-(i64::MAX as i128) * 1_000_000),
        V::Dur(1),
        V::Dur(-1),
    ]
}

pub fn grid_numeric() -> Vec<V> {
    let mut v: Vec<V> = ints().into_iter().map(V::Int).collect();
    v.extend(uints().into_iter().map(V::Uint));
    v.extend(doubles().into_iter().map(V::Dbl));
    v.push(V::Bool(true));
    v.push(V::Bool(false));
    v
}

/// Everything: the C01 boundary pool.
pub fn boundary_pool() -> Vec<V> {
    let mut v = small_numeric();
    v.extend(non_numeric());
    v.extend(time_edges());
    v
}

pub fn rand_i64(r: &mut Rng) -> i64 {
    match r.below(6) {
        0 => r.next() as i64,
        1 => {
            // within +-3 of a power of two
            let p = r.below(64) as u32;
            let base = if p == 63 { i64::MIN } else { 1i64 << p };
            let b = if r.chance(1, 2) { base } else { base.wrapping_neg() };
            b.wrapping_add(r.range(-3, 3))
        }
        2 => r.range(-100, 100),
        3 => (r.next() >> r.below(64)) as i64,
        4 => -((r.next() >> r.below(64)) as i64),
        _ => *r.pick(&ints()),
    }
}

pub fn rand_u64(r: &mut Rng) -> u64 {
    match r.below(5) {
        0 => r.next(),
        1 => {
            let p = r.below(64) as u32;
            (1u64 << p).wrapping_add(r.range(-3, 3) as u64)
        }
        2 => r.below(100),
        3 => r.next() >> r.below(64),
        _ => *r.pick(&uints()),
    }
}

pub fn rand_f64(r: &mut Rng) -> f64 {
    match r.below(6) {
        0 => f64::from_bits(r.next()),
        1 => *r.pick(&doubles()),
        2 => r.range(-1000, 1000) as f64 / 8.0,
        3 => (r.next() >> r.below(64)) as f64,
        4 => {
            let m = (r.next() >> 11) as f64 / (1u64 << 53) as f64;
            let e = r.range(-80, 80) as i32;
            let v = m * 2f64.powi(e);
            if r.chance(1, 2) { -v } else { v }
        }
        _ => rand_i64(r) as f64,
    }
}

pub fn rand_numeric(r: &mut Rng) -> V {
    match r.below(10) {
        0..=3 => V::Int(rand_i64(r)),
        4..=6 => V::Uint(rand_u64(r)),
        7..=8 => V::Dbl(rand_f64(r)),
        _ => V::Bool(r.chance(1, 2)),
    }
}

const ALPHA: &[char] = &['a', 'b', 'B', 'z', 'é', 'ß', 'İ', 'σ', 'Σ', ' ', '\t', ',', '𝄞', '0', '\'', '"', '\\', '\n', '{', '}'];

pub fn rand_string(r: &mut Rng, maxlen: u64) -> String {
    let n = r.below(maxlen + 1);
    (0..n).map(|_| *r.pick(ALPHA)).collect()
}

pub fn rand_bytes(r: &mut Rng, maxlen: u64) -> Vec<u8> {
    let n = r.below(maxlen + 1);
    (0..n).map(|_| if r.chance(1, 2) { r.below(256) as u8 } else { b'a' + r.below(3) as u8 }).collect()
}

pub fn rand_ts(r: &mut Rng) -> V {
    match r.below(4) {
        0 => V::Ts(r.range(-62135596800, 253402300799) as i128 * 1_000_000_000 + r.below(1_000_000_000) as i128),
        1 => V::Ts(r.range(0, 2_000_000_000) as i128 * 1_000_000_000 + r.below(1000) as i128 * 1_000_000),
        2 => V::Ts(r.range(-8334601228800, 8210266876799) as i128 * 1_000_000_000),
        _ => V::Ts(r.range(-100, 100) as i128 * 86_400_000_000_000),
    }
}

pub fn rand_dur(r: &mut Rng) -> V {
    match r.below(4) {
        0 => V::Dur(r.range(-1_000_000, 1_000_000) as i128 * 1_000_000),
        1 => V::Dur(r.next() as i64 as i128),
        2 => V::Dur((r.next() as i64 as i128) * 1000),
        _ => V::Dur(r.range(-400, 400) as i128 * 3_600_000_000_000 + r.range(0, 999) as i128 * 1_000_000),
    }
}

/// A random value of any type, nested up to `depth`.
pub fn rand_value(r: &mut Rng, depth: u32) -> V {
    let top = if depth == 0 { 9 } else { 11 };
    match r.below(top) {
        0 | 1 => V::Int(rand_i64(r)),
        2 => V::Uint(rand_u64(r)),
        3 => V::Dbl(rand_f64(r)),
        4 => V::Bool(r.chance(1, 2)),
        5 => V::Str(rand_string(r, 6)),
        6 => V::Bytes(rand_bytes(r, 5)),
        7 => V::Null,
        8 => match r.below(3) {
            0 => rand_ts(r),
            1 => rand_dur(r),
            _ => V::Type(r.pick(&["int", "uint", "float", "string", "bool", "bytes", "list", "map", "null", "timestamp", "duration", "type"]).to_string()),
        },
        9 => {
            let n = r.below(4);
            V::List((0..n).map(|_| rand_value(r, depth - 1)).collect())
        }
        _ => {
            let n = r.below(4);
            let mut kv: Vec<(String, V)> = Vec::new();
            for _ in 0..n {
                let k = r.pick(&["a", "b", "k", "é", ""]).to_string();
                if !kv.iter().any(|(kk, _)| *kk == k) {
                    kv.push((k, rand_value(r, depth - 1)));
                }
            }
            kv.sort_by(|a, b| a.0.cmp(&b.0));
            V::Map(kv)
        }
    }
}
