//! Topics whose records are not plain expression evaluations: compiled artefacts (bytecode, syntax
//! trees, tokens, parameters), API histories, serialization round trips, SQL.
use crate::gen::ExprGen;
use crate::proj::compile_record;
use crate::rng::Rng;
use crate::tree::*;
use crate::val::V;
use serde_json::{json, Value as J};
use std::io::Write;

pub struct Raw<'a> {
    pub rng: Rng,
    pub thorough: bool,
    pub n: usize,
    pub out: &'a mut dyn Write,
    pub count: usize,
    pub prefix: String,
}

impl<'a> Raw<'a> {
    pub fn emit(&mut self, mut j: J) {
        self.count += 1;
        j["id"] = J::from(format!("{}-{:06}", self.prefix, self.count));
        writeln!(self.out, "{}", j).unwrap();
    }
}

pub fn full_gen() -> ExprGen {
    ExprGen { vars: vec!["a".into(), "b".into(), "c".into(), "m".into()], progs: vec![], funcs: vec!["f1".into()], macros: true, fstrings: true, matches: true }
}

fn count_clock(t: &T) -> u32 {
    let mut n = 0;
    // walk by rendering: simplest is a recursive match
    fn go(t: &T, n: &mut u32) {
        match t {
            T::Call { f, args } => {
                if (f == "now" || f == "timestamp") && args.is_empty() {
                    *n += 1;
                }
                args.iter().for_each(|a| go(a, n));
            }
            T::Lit(_) | T::Id(_) => {}
            T::Un { e, .. } | T::Paren(e) | T::Sel { e, .. } => go(e, n),
            T::Bin { l, r, .. } => {
                go(l, n);
                go(r, n)
            }
            T::Tern { c, a, b } => {
                go(c, n);
                go(a, n);
                go(b, n)
            }
            T::List(es) => es.iter().for_each(|e| go(e, n)),
            T::Map(kv) => kv.iter().for_each(|(k, v)| {
                go(k, n);
                go(v, n)
            }),
            T::Idx { e, i } => {
                go(e, n);
                go(i, n)
            }
            T::MCall { r, args, .. } => {
                go(r, n);
                args.iter().for_each(|a| go(a, n))
            }
            T::FStr(segs) => segs.iter().for_each(|s| {
                if let Seg::Expr(e) = s {
                    go(e, n)
                }
            }),
            T::Match { e, cases } => {
                go(e, n);
                for (p, e) in cases {
                    if let Pat::Cmp(_, v) = p {
                        go(v, n)
                    }
                    go(e, n)
                }
            }
        }
    }
    go(t, &mut n);
    n
}

/// C10: real bytecode of generated programs (every construct), for the abstract stack machine.
pub fn bytecode(cx: &mut Raw) {
    let g = full_gen();
    let mut emit_tree = |cx: &mut Raw, t: &T, clock: bool, tick: bool| {
        let src = render(t, Parens::Min, false, &mut cx.rng);
        let c = compile_record(&src, false, false, true);
        let mut j = c.json;
        j.as_object_mut().unwrap().remove("src");
        // untaken constant branches may legitimately drop a clock call: only counted where the
        // generator knows every call is live
        j["clock"] = J::from(if clock { count_clock(t) } else { 0 });
        if tick {
            // a program whose value is the clock itself: two executions a few ms apart differ
            if let Some(prog) = c.program {
                let mut ctx = rscel::CelContext::new();
                ctx.add_program("main", prog);
                let b = rscel::BindContext::new();
                let r1 = crate::val::outcome(&ctx.exec("main", &b));
                std::thread::sleep(std::time::Duration::from_millis(3));
                let r2 = crate::val::outcome(&ctx.exec("main", &b));
                j["tick"] = json!([r1, r2]);
            }
        }
        cx.emit(j);
    };
    // targeted shapes: nested ||/&&/?:/match in every position, calls, macros, f-strings, clock
    let a = || id("a");
    let b = || id("b");
    let c = || id("c");
    let targeted: Vec<T> = vec![
        tern(a(), b(), c()),
        tern(tern(a(), b(), c()), tern(a(), b(), c()), tern(a(), b(), c())),
        tern(bin("||", a(), b()), bin("&&", a(), b()), un('!', 1, c())),
        tern(a(), b(), un('!', 1, c())),
        tern(a(), b(), un('-', 2, c())),
        bin("||", bin("||", a(), b()), bin("&&", a(), tern(a(), b(), c()))),
        bin("&&", tern(a(), b(), c()), bin("||", a(), bin("&&", b(), c()))),
        T::Match { e: Box::new(a()), cases: vec![(Pat::Type("int".into()), b()), (Pat::Cmp("<".into(), b()), tern(a(), b(), c())), (Pat::Any, c())] },
        T::Match { e: Box::new(tern(a(), b(), c())), cases: vec![] },
        T::Match { e: Box::new(a()), cases: vec![(Pat::Any, T::Match { e: Box::new(b()), cases: vec![(Pat::Cmp("==".into(), c()), a())] })] },
        call("f1", vec![tern(a(), b(), c()), bin("||", a(), b())]),
        mcall(a(), "map", vec![id("x"), tern(id("x"), b(), c()), bin("||", id("x"), a())]),
        mcall(T::List(vec![a(), b()]), "reduce", vec![id("acc"), id("x"), tern(id("acc"), id("x"), c()), bin("&&", a(), b())]),
        T::FStr(vec![Seg::Lit("x".into()), Seg::Expr(tern(a(), b(), c())), Seg::Expr(bin("||", a(), b()))]),
        call("has", vec![sel(sel(a(), "b"), "c")]),
        call("coalesce", vec![a(), tern(a(), b(), c()), T::Match { e: Box::new(a()), cases: vec![(Pat::Any, b())] }]),
        call("now", vec![]),
        mcall(call("now", vec![]), "getFullYear", vec![]),
        bin("-", call("now", vec![]), call("timestamp", vec![])),
        bin("<", call("timestamp", vec![]), bin("+", call("now", vec![]), call("duration", vec![lit(V::Str("1s".into()))]))),
        T::List(vec![call("now", vec![]), tern(a(), call("now", vec![]), call("timestamp", vec![]))]),
        mcall(T::List(vec![lit(V::Int(1))]), "map", vec![id("x"), call("now", vec![])]),
        T::FStr(vec![Seg::Expr(call("now", vec![]))]),
        call("string", vec![call("timestamp", vec![])]),
        idx(T::Map(vec![(lit(V::Str("k".into())), tern(a(), b(), c()))]), bin("||", a(), b())),
    ];
    for t in targeted.iter() {
        let tick = matches!(t, T::Call { f, .. } if f == "now") || matches!(t, T::List(_)) && count_clock(t) > 0 || matches!(t, T::FStr(_)) && count_clock(t) > 0
            || matches!(t, T::Call { f, .. } if f == "string") && count_clock(t) > 0;
        emit_tree(cx, t, true, tick);
    }
    for i in 0..cx.n {
        let depth = 2 + (i % 4) as u32;
        let mut t = g.expr(&mut cx.rng, depth);
        if i % 7 == 0 {
            t = tern(t, call("now", vec![]), g.expr(&mut cx.rng, 2));
        }
        emit_tree(cx, &t, false, false);
    }
}

pub fn run_raw_topic(topic: &str, cx: &mut Raw) -> bool {
    match topic {
        "bytecode" => bytecode(cx),
        "parse" => parse(cx),
        _ => return false,
    }
    true
}

// ---------------------------------------------------------------------------------------------
// C02 / C18: parsing, spans, error locations

fn char_offset(text: &str, line: usize, col: usize) -> Option<usize> {
    // index (in chars) of the character at (line, col); col counts characters
    let mut l = 0usize;
    let mut c = 0usize;
    for (i, ch) in text.chars().enumerate() {
        if l == line && c == col {
            return Some(i);
        }
        if ch == '\n' {
            l += 1;
            c = 0;
        } else {
            c += 1;
        }
    }
    if l == line && c == col {
        Some(text.chars().count())
    } else {
        None
    }
}

fn span_text(text: &str, sp: &J) -> Option<String> {
    let a = sp.as_array()?;
    let s = char_offset(text, a[0].as_u64()? as usize, a[1].as_u64()? as usize)?;
    let e = char_offset(text, a[2].as_u64()? as usize, a[3].as_u64()? as usize)?;
    if s > e {
        return None;
    }
    Some(text.chars().skip(s).take(e - s).collect())
}

fn collect_spans(ast: &J, out: &mut Vec<J>) {
    match ast {
        J::Object(o) => {
            if o.contains_key("k") && o.get("k").and_then(|k| k.as_str()) != Some("paren") {
                if let Some(sp) = o.get("sp") {
                    out.push(sp.clone());
                }
            }
            for (k, v) in o {
                if k != "sp" && k != "argsp" && k != "p" {
                    collect_spans(v, out);
                }
            }
        }
        J::Array(a) => a.iter().for_each(|v| collect_spans(v, out)),
        _ => {}
    }
}

fn parse_record(cx: &mut Raw, src: &str, want: Option<&T>, must: Option<&str>, subs: usize) {
    let c = compile_record(src, true, true, false);
    let mut j = c.json;
    if let Some(w) = want {
        j["want"] = w.to_json();
    }
    if let Some(m) = must {
        j["must"] = J::from(m);
    }
    // every token's spanned text, re-lexed on its own
    if let Some(toks) = j.get("tokens").and_then(|t| t.as_array()).cloned() {
        if toks.len() <= 60 {
            let mut relex = Vec::new();
            for t in toks.iter() {
                match span_text(src, &t["sp"]) {
                    Some(txt) => {
                        let (ts, _) = crate::proj::tokenize(&txt);
                        relex.push(J::Array(ts.into_iter().map(|mut x| { x.as_object_mut().unwrap().remove("sp"); x }).collect()));
                    }
                    None => relex.push(J::Array(vec![])),
                }
            }
            j["relex"] = J::Array(relex);
        }
    }
    // some sub-expressions, compiled on their own
    if subs > 0 {
        if let Some(ast) = j.get("ast").cloned() {
            let mut spans = Vec::new();
            collect_spans(&ast, &mut spans);
            let mut chosen = Vec::new();
            for _ in 0..subs.min(spans.len()) {
                let sp = spans[cx.rng.below(spans.len() as u64) as usize].clone();
                if let Some(txt) = span_text(src, &sp) {
                    let sc = compile_record(&txt, false, true, false);
                    let mut sj = json!({"sp": sp, "text": txt, "compile": sc.json["compile"]});
                    if let Some(a) = sc.json.get("ast") {
                        sj["ast"] = a.clone();
                    }
                    chosen.push(sj);
                } else {
                    chosen.push(json!({"sp": sp, "text": "", "compile": {"o":"err","c":"span"}}));
                }
            }
            j["subs"] = J::Array(chosen);
        }
    }
    cx.emit(j);
}

fn corrupt(src: &str, r: &mut Rng) -> String {
    let chars: Vec<char> = src.chars().collect();
    if chars.is_empty() {
        return ")".to_string();
    }
    let mut out = chars.clone();
    let i = r.below(chars.len() as u64) as usize;
    match r.below(6) {
        0 => {
            out.remove(i);
        }
        1 => out.insert(i, *r.pick(&[')', '(', ']', '?', ':', '"', '\\', '\n', '@', '#', 'é', '=', '|', '&', '.', ','])),
        2 => out[i] = *r.pick(&[')', '(', '}', '{', '\'', '$', '~', '\n', 'u', '0']),
        3 => out.truncate(i),
        4 => {
            let j = r.below(chars.len() as u64) as usize;
            out.swap(i, j);
        }
        _ => {
            let seg: Vec<char> = out[i..].iter().take(3).cloned().collect();
            for (k, c) in seg.into_iter().enumerate() {
                out.insert(i + k, c);
            }
        }
    }
    out.into_iter().collect()
}

/// Flat operator sequences: atoms joined by binary operators / ternary tokens, with unary prefixes.
fn flat_sequences(cx: &mut Raw, nops: usize) {
    let bins = ["||", "&&", "<", "<=", "==", "!=", ">=", ">", "in", "+", "-", "*", "/", "%", "?", ":"];
    let uns = ["", "!", "!!", "-", "--"];
    let atoms = ["a", "b", "c", "d"];
    let total = bins.len().pow(nops as u32);
    for code in 0..total {
        let mut ops = Vec::new();
        let mut c0 = code;
        for _ in 0..nops {
            ops.push(bins[c0 % bins.len()]);
            c0 /= bins.len();
        }
        // unary prefixes: all combinations for <= 1 operator, seeded choice above
        let ucombos: Vec<Vec<&str>> = if nops <= 1 {
            let mut v = Vec::new();
            for u0 in uns.iter() {
                for u1 in uns.iter() {
                    v.push(vec![*u0, *u1]);
                }
            }
            v
        } else {
            (0..(if cx.thorough { 6 } else { 2 })).map(|_| (0..=nops).map(|_| *cx.rng.pick(&uns)).collect()).collect()
        };
        for us in ucombos {
            let mut s = String::new();
            for i in 0..=nops {
                if i > 0 {
                    s.push(' ');
                    s.push_str(ops[i - 1]);
                    s.push(' ');
                }
                s.push_str(us[i.min(us.len() - 1)]);
                s.push_str(atoms[i]);
                if cx.rng.below(9) == 0 {
                    s.push_str(*cx.rng.pick(&[".f", "[0]", ".g()", "(1)"]));
                }
            }
            let nsub = if cx.rng.below(4) == 0 { 2 } else { 0 };
            parse_record(cx, &s, None, None, nsub);
        }
    }
}

pub fn parse(cx: &mut Raw) {
    for nops in 0..=2usize {
        flat_sequences(cx, nops);
    }
    if cx.thorough {
        flat_sequences(cx, 3);
    } else {
        // a seeded sample of the 3-operator sequences
        let bins = ["||", "&&", "<", "==", "in", "+", "-", "*", "/", "%", "?", ":"];
        for _ in 0..1500 {
            let s = format!("a {} b {} c {} d", cx.rng.pick(&bins), cx.rng.pick(&bins), cx.rng.pick(&bins));
            parse_record(cx, &s, None, None, 1);
        }
    }
    // generated deeper trees, rendered with minimal / full / random parentheses and random whitespace
    let g = ExprGen { vars: vec!["a".into(), "b".into(), "c".into()], progs: vec![], funcs: vec!["f1".into()], macros: true, fstrings: false, matches: true };
    for i in 0..cx.n {
        let t = nonneg(&g.expr(&mut cx.rng, 2 + (i % 4) as u32));
        for (parens, ws) in [(Parens::Min, false), (Parens::Full, false), (Parens::Random, true), (Parens::Min, true)] {
            let src = render(&t, parens, ws, &mut cx.rng);
            parse_record(cx, &src, Some(&t), Some("ok"), 3);
            if i % 3 == 0 && parens == Parens::Random {
                let bad = corrupt(&src, &mut cx.rng);
                parse_record(cx, &bad, None, None, 0);
            }
        }
    }
    // multi-byte characters and newlines inside and around tokens
    for src in ["\"é\"+\n  'ab𝄞' ", "a\n+\n\tb", "  x  ", "[1,\n 2 ,\"𝄞𝄞\"\n]", "{\"k\":\n1}.k", "f(\n)", "a ? b\n: c", "match x { case int: 1,\n case _: 2 }", "match x {}", "'é' in ['é']", "b\"\\xff\" + b'a'", "r'a\\n'", "1.5e3 + .5", "0x1F + 7u", "a.b.c(d)[e].f", "!-a", "-!a", "- - a", "!!!a", "a ? b : c ? d : e", "a ? b ? c : d : e", "(a ? b : c) ? d : e", "a in b in c", "a < b == c", "[a,]", "{a:b,}", "f(a,)", "x.in", "x.y.match", "1 +", "", " ", ")", "a b", "a ? b", "a ? : c", "match", "match x {case}", "\"abc", "'\\q'", "0x", "1e", "1.5.2", "a..b", "a.[b]", "f(,)", "[,]", "{,}", "{a}", "{a:}", "a ?? b", "a = b", "a | b", "a & b", "a ! b", "$", "é", "a\r\nb"] {
        parse_record(cx, src, None, None, 3);
    }
}

/// The same tree without negative numeric literals (they render as a unary minus).
fn nonneg(t: &T) -> T {
    match t {
        T::Lit(V::Int(i)) if *i < 0 => T::Lit(V::Int(i.wrapping_neg().max(0))),
        T::Lit(V::Dbl(f)) if f.is_sign_negative() => T::Lit(V::Dbl(-*f)),
        T::Lit(_) | T::Id(_) => t.clone(),
        T::Un { op, n, e } => T::Un { op: *op, n: *n, e: Box::new(nonneg(e)) },
        T::Bin { op, l, r } => T::Bin { op: op.clone(), l: Box::new(nonneg(l)), r: Box::new(nonneg(r)) },
        T::Tern { c, a, b } => T::Tern { c: Box::new(nonneg(c)), a: Box::new(nonneg(a)), b: Box::new(nonneg(b)) },
        T::List(es) => T::List(es.iter().map(nonneg).collect()),
        T::Map(kv) => T::Map(kv.iter().map(|(k, v)| (nonneg(k), nonneg(v))).collect()),
        T::Sel { e, f } => T::Sel { e: Box::new(nonneg(e)), f: f.clone() },
        T::Idx { e, i } => T::Idx { e: Box::new(nonneg(e)), i: Box::new(nonneg(i)) },
        T::Call { f, args } => T::Call { f: f.clone(), args: args.iter().map(nonneg).collect() },
        T::MCall { r, f, args } => T::MCall { r: Box::new(nonneg(r)), f: f.clone(), args: args.iter().map(nonneg).collect() },
        T::FStr(s) => T::FStr(s.clone()),
        T::Match { e, cases } => T::Match {
            e: Box::new(nonneg(e)),
            cases: cases.iter().map(|(p, e)| (match p { Pat::Cmp(o, v) => Pat::Cmp(o.clone(), nonneg(v)), o => o.clone() }, nonneg(e))).collect(),
        },
        T::Paren(e) => T::Paren(Box::new(nonneg(e))),
    }
}
