//! Topics whose records are not plain expression evaluations: compiled artefacts (bytecode, syntax
//! trees, tokens, parameters), API histories, serialization round trips, SQL.
use crate::gen::ExprGen;
use crate::proj::compile_record;
use crate::rng::Rng;
use crate::tree::*;
use crate::val::V;
use serde_json::{json, Value as J};
use std::io::Write;

pub struct Raw<'a> {
    pub rng: Rng,
    pub thorough: bool,
    pub n: usize,
    pub out: &'a mut dyn Write,
    pub count: usize,
    pub prefix: String,
}

impl<'a> Raw<'a> {
    pub fn emit(&mut self, mut j: J) {
        self.count += 1;
        j["id"] = J::from(format!("{}-{:06}", self.prefix, self.count));
        writeln!(self.out, "{}", j).unwrap();
    }
}

pub fn full_gen() -> ExprGen {
    ExprGen { vars: vec!["a".into(), "b".into(), "c".into(), "m".into()], progs: vec![], funcs: vec!["f1".into()], macros: true, fstrings: true, matches: true }
}

fn count_clock(t: &T) -> u32 {
    let mut n = 0;
    // walk by rendering: simplest is a recursive match
    fn go(t: &T, n: &mut u32) {
        match t {
            T::Call { f, args } => {
                if (f == "now" || f == "timestamp") && args.is_empty() {
                    *n += 1;
                }
                args.iter().for_each(|a| go(a, n));
            }
            T::Lit(_) | T::Id(_) => {}
            T::Un { e, .. } | T::Paren(e) | T::Sel { e, .. } => go(e, n),
            T::Bin { l, r, .. } => {
                go(l, n);
                go(r, n)
            }
            T::Tern { c, a, b } => {
                go(c, n);
                go(a, n);
                go(b, n)
            }
            T::List(es) => es.iter().for_each(|e| go(e, n)),
            T::Map(kv) => kv.iter().for_each(|(k, v)| {
                go(k, n);
                go(v, n)
            }),
            T::Idx { e, i } => {
                go(e, n);
                go(i, n)
            }
            T::MCall { r, args, .. } => {
                go(r, n);
                args.iter().for_each(|a| go(a, n))
            }
            T::FStr(segs) => segs.iter().for_each(|s| {
                if let Seg::Expr(e) = s {
                    go(e, n)
                }
            }),
            T::Match { e, cases } => {
                go(e, n);
                for (p, e) in cases {
                    if let Pat::Cmp(_, v) = p {
                        go(v, n)
                    }
                    go(e, n)
                }
            }
        }
    }
    go(t, &mut n);
    n
}

/// C10: real bytecode of generated programs (every construct), for the abstract stack machine.
pub fn bytecode(cx: &mut Raw) {
    let g = full_gen();
    let mut emit_tree = |cx: &mut Raw, t: &T, clock: bool, tick: bool| {
        let src = render(t, Parens::Min, false, &mut cx.rng);
        let c = compile_record(&src, false, false, true);
        let mut j = c.json;
        j.as_object_mut().unwrap().remove("src");
        // untaken constant branches may legitimately drop a clock call: only counted where the
        // generator knows every call is live
        j["clock"] = J::from(if clock { count_clock(t) } else { 0 });
        if tick {
            // a program whose value is the clock itself: two executions a few ms apart differ
            if let Some(prog) = c.program {
                let mut ctx = rscel::CelContext::new();
                ctx.add_program("main", prog);
                let b = rscel::BindContext::new();
                let r1 = crate::val::outcome(&ctx.exec("main", &b));
                std::thread::sleep(std::time::Duration::from_millis(3));
                let r2 = crate::val::outcome(&ctx.exec("main", &b));
                j["tick"] = json!([r1, r2]);
            }
        }
        cx.emit(j);
    };
    // targeted shapes: nested ||/&&/?:/match in every position, calls, macros, f-strings, clock
    let a = || id("a");
    let b = || id("b");
    let c = || id("c");
    let targeted: Vec<T> = vec![
        tern(a(), b(), c()),
        tern(tern(a(), b(), c()), tern(a(), b(), c()), tern(a(), b(), c())),
        tern(bin("||", a(), b()), bin("&&", a(), b()), un('!', 1, c())),
        tern(a(), b(), un('!', 1, c())),
        tern(a(), b(), un('-', 2, c())),
        bin("||", bin("||", a(), b()), bin("&&", a(), tern(a(), b(), c()))),
        bin("&&", tern(a(), b(), c()), bin("||", a(), bin("&&", b(), c()))),
        T::Match { e: Box::new(a()), cases: vec![(Pat::Type("int".into()), b()), (Pat::Cmp("<".into(), b()), tern(a(), b(), c())), (Pat::Any, c())] },
        T::Match { e: Box::new(tern(a(), b(), c())), cases: vec![] },
        T::Match { e: Box::new(a()), cases: vec![(Pat::Any, T::Match { e: Box::new(b()), cases: vec![(Pat::Cmp("==".into(), c()), a())] })] },
        call("f1", vec![tern(a(), b(), c()), bin("||", a(), b())]),
        mcall(a(), "map", vec![id("x"), tern(id("x"), b(), c()), bin("||", id("x"), a())]),
        mcall(T::List(vec![a(), b()]), "reduce", vec![id("acc"), id("x"), tern(id("acc"), id("x"), c()), bin("&&", a(), b())]),
        T::FStr(vec![Seg::Lit("x".into()), Seg::Expr(tern(a(), b(), c())), Seg::Expr(bin("||", a(), b()))]),
        call("has", vec![sel(sel(a(), "b"), "c")]),
        call("coalesce", vec![a(), tern(a(), b(), c()), T::Match { e: Box::new(a()), cases: vec![(Pat::Any, b())] }]),
        call("now", vec![]),
        mcall(call("now", vec![]), "getFullYear", vec![]),
        bin("-", call("now", vec![]), call("timestamp", vec![])),
        bin("<", call("timestamp", vec![]), bin("+", call("now", vec![]), call("duration", vec![lit(V::Str("1s".into()))]))),
        T::List(vec![call("now", vec![]), tern(a(), call("now", vec![]), call("timestamp", vec![]))]),
        mcall(T::List(vec![lit(V::Int(1))]), "map", vec![id("x"), call("now", vec![])]),
        T::FStr(vec![Seg::Expr(call("now", vec![]))]),
        call("string", vec![call("timestamp", vec![])]),
        idx(T::Map(vec![(lit(V::Str("k".into())), tern(a(), b(), c()))]), bin("||", a(), b())),
    ];
    for t in targeted.iter() {
        let tick = matches!(t, T::Call { f, .. } if f == "now") || matches!(t, T::List(_)) && count_clock(t) > 0 || matches!(t, T::FStr(_)) && count_clock(t) > 0
            || matches!(t, T::Call { f, .. } if f == "string") && count_clock(t) > 0;
        emit_tree(cx, t, true, tick);
    }
    for i in 0..cx.n {
        let depth = 2 + (i % 4) as u32;
        let mut t = g.expr(&mut cx.rng, depth);
        if i % 7 == 0 {
            t = tern(t, call("now", vec![]), g.expr(&mut cx.rng, 2));
        }
        emit_tree(cx, &t, false, false);
    }
}

pub fn run_raw_topic(topic: &str, cx: &mut Raw) -> bool {
    match topic {
        "bytecode" => bytecode(cx),
        _ => return false,
    }
    true
}
