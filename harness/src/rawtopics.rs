//! Topics whose records are not plain expression evaluations: compiled artefacts (bytecode, syntax
//! trees, tokens, parameters), API histories, serialization round trips, SQL.
use crate::gen::ExprGen;
use crate::proj::compile_record;
use crate::rng::Rng;
use crate::tree::*;
use crate::val::V;
use serde_json::{json, Value as J};
use std::io::Write;

pub struct Raw<'a> {
    pub rng: Rng,
    pub thorough: bool,
    pub n: usize,
    pub out: &'a mut dyn Write,
    pub count: usize,
    pub prefix: String,
}

impl<'a> Raw<'a> {
    pub fn emit(&mut self, mut j: J) {
        self.count += 1;
        j["id"] = J::from(format!("{}-{:06}", self.prefix, self.count));
        writeln!(self.out, "{}", j).unwrap();
    }
}

pub fn full_gen() -> ExprGen {
    ExprGen { vars: vec!["a".into(), "b".into(), "c".into(), "m".into()], progs: vec![], funcs: vec!["f1".into()], macros: true, fstrings: true, matches: true }
}

fn count_clock(t: &T) -> u32 {
    let mut n = 0;
    // walk by rendering: simplest is a recursive match
    fn go(t: &T, n: &mut u32) {
        match t {
            T::Call { f, args } => {
                if (f == "now" || f == "timestamp") && args.is_empty() {
                    *n += 1;
                }
                args.iter().for_each(|a| go(a, n));
            }
            T::Lit(_) | T::Id(_) => {}
            T::Un { e, .. } | T::Paren(e) | T::Sel { e, .. } => go(e, n),
            T::Bin { l, r, .. } => {
                go(l, n);
                go(r, n)
            }
            T::Tern { c, a, b } => {
                go(c, n);
                go(a, n);
                go(b, n)
            }
            T::List(es) => es.iter().for_each(|e| go(e, n)),
            T::Map(kv) => kv.iter().for_each(|(k, v)| {
                go(k, n);
                go(v, n)
            }),
            T::Idx { e, i } => {
                go(e, n);
                go(i, n)
            }
            T::MCall { r, args, .. } => {
                go(r, n);
                args.iter().for_each(|a| go(a, n))
            }
            T::FStr(segs) => segs.iter().for_each(|s| {
                if let Seg::Expr(e) = s {
                    go(e, n)
                }
            }),
            T::Match { e, cases } => {
                go(e, n);
                for (p, e) in cases {
                    if let Pat::Cmp(_, v) = p {
                        go(v, n)
                    }
                    go(e, n)
                }
            }
        }
    }
    go(t, &mut n);
    n
}

/// C10: real bytecode of generated programs (every construct), for the abstract stack machine.
pub fn bytecode(cx: &mut Raw) {
    let g = full_gen();
    let mut emit_tree = |cx: &mut Raw, t: &T, clock: bool, tick: bool| {
        let src = render(t, Parens::Min, false, &mut cx.rng);
        let c = compile_record(&src, false, false, true);
        let mut j = c.json;
        j.as_object_mut().unwrap().remove("src");
        // untaken constant branches may legitimately drop a clock call: only counted where the
        // generator knows every call is live
        j["clock"] = J::from(if clock { count_clock(t) } else { 0 });
        if tick {
            // a program whose value is the clock itself: two executions a few ms apart differ
            if let Some(prog) = c.program {
                let mut ctx = rscel::CelContext::new();
                ctx.add_program("main", prog);
                let b = rscel::BindContext::new();
                let r1 = crate::val::outcome(&ctx.exec("main", &b));
                std::thread::sleep(std::time::Duration::from_millis(3));
                let r2 = crate::val::outcome(&ctx.exec("main", &b));
                j["tick"] = json!([r1, r2]);
            }
        }
        cx.emit(j);
    };
    // targeted shapes: nested ||/&&/?:/match in every position, calls, macros, f-strings, clock
    let a = || id("a");
    let b = || id("b");
    let c = || id("c");
    let targeted: Vec<T> = vec![
        tern(a(), b(), c()),
        tern(tern(a(), b(), c()), tern(a(), b(), c()), tern(a(), b(), c())),
        tern(bin("||", a(), b()), bin("&&", a(), b()), un('!', 1, c())),
        tern(a(), b(), un('!', 1, c())),
        tern(a(), b(), un('-', 2, c())),
        bin("||", bin("||", a(), b()), bin("&&", a(), tern(a(), b(), c()))),
        bin("&&", tern(a(), b(), c()), bin("||", a(), bin("&&", b(), c()))),
        T::Match { e: Box::new(a()), cases: vec![(Pat::Type("int".into()), b()), (Pat::Cmp("<".into(), b()), tern(a(), b(), c())), (Pat::Any, c())] },
        T::Match { e: Box::new(tern(a(), b(), c())), cases: vec![] },
        T::Match { e: Box::new(a()), cases: vec![(Pat::Any, T::Match { e: Box::new(b()), cases: vec![(Pat::Cmp("==".into(), c()), a())] })] },
        call("f1", vec![tern(a(), b(), c()), bin("||", a(), b())]),
        mcall(a(), "map", vec![id("x"), tern(id("x"), b(), c()), bin("||", id("x"), a())]),
        mcall(T::List(vec![a(), b()]), "reduce", vec![id("acc"), id("x"), tern(id("acc"), id("x"), c()), bin("&&", a(), b())]),
        T::FStr(vec![Seg::Lit("x".into()), Seg::Expr(tern(a(), b(), c())), Seg::Expr(bin("||", a(), b()))]),
        call("has", vec![sel(sel(a(), "b"), "c")]),
        call("coalesce", vec![a(), tern(a(), b(), c()), T::Match { e: Box::new(a()), cases: vec![(Pat::Any, b())] }]),
        call("now", vec![]),
        mcall(call("now", vec![]), "getFullYear", vec![]),
        bin("-", call("now", vec![]), call("timestamp", vec![])),
        bin("<", call("timestamp", vec![]), bin("+", call("now", vec![]), call("duration", vec![lit(V::Str("1s".into()))]))),
        T::List(vec![call("now", vec![]), tern(a(), call("now", vec![]), call("timestamp", vec![]))]),
        mcall(T::List(vec![lit(V::Int(1))]), "map", vec![id("x"), call("now", vec![])]),
        T::FStr(vec![Seg::Expr(call("now", vec![]))]),
        call("string", vec![call("timestamp", vec![])]),
        idx(T::Map(vec![(lit(V::Str("k".into())), tern(a(), b(), c()))]), bin("||", a(), b())),
    ];
    for t in targeted.iter() {
        emit_tree(cx, t, false, false);
    }
    for i in 0..cx.n {
        let depth = 2 + (i % 4) as u32;
        let mut t = g.expr(&mut cx.rng, depth);
        if i % 7 == 0 {
            t = tern(t, call("now", vec![]), g.expr(&mut cx.rng, 2));
        }
        emit_tree(cx, &t, false, false);
    }
}

/// C11: random API histories, sequentially and on 16 threads at once.
pub fn api(cx: &mut Raw) {
    let nhist = cx.n;
    for i in 0..16 {
        let mut steps = crate::hist::probe_history(i);
        crate::hist::run_history(&mut steps);
        cx.emit(json!({"kind":"history","steps":steps}));
    }
    for i in 0..nhist {
        let len = if i % 10 == 0 { 200 } else { 10 + cx.rng.below(50) as usize };
        let mut steps = crate::hist::random_history(&mut cx.rng, len, 1, 1);
        crate::hist::run_history(&mut steps);
        cx.emit(json!({"kind":"history","steps":steps}));
    }
    // 16 threads, each replaying its own history at the same time; a shared prefix context is built
    // on the main thread, cloned, and the clones are moved into the threads
    let rounds = if cx.thorough { 12 } else { 3 };
    for _ in 0..rounds {
        let mut handles = Vec::new();
        for t in 0..16u64 {
            let mut r = cx.rng.fork();
            handles.push(std::thread::spawn(move || {
                crate::run::silence_panics();
                let mut steps = crate::hist::random_history(&mut r, 60, 1, 1);
                // repeat the last third: repeated execution must be stable
                let tail: Vec<J> = steps.iter().rev().take(20).rev().filter(|e| e["a"] == "Exec" || e["a"] == "Details").cloned().collect();
                steps.extend(tail);
                crate::hist::run_history(&mut steps);
                (t, steps)
            }));
        }
        for h in handles {
            if let Ok((t, steps)) = h.join() {
                cx.emit(json!({"kind":"history","thread":t,"steps":steps}));
            } else {
                cx.emit(json!({"kind":"history","steps":[{"a":"Exec","c":0,"b":0,"n":"p","out":{"o":"crash","what":"thread panicked"}}]}));
            }
        }
    }
}

pub fn run_raw_topic(topic: &str, cx: &mut Raw) -> bool {
    match topic {
        "bytecode" => bytecode(cx),
        "parse" => parse(cx),
        "literals" => literals(cx),
        "fuzz" => fuzz(cx),
        "api" => api(cx),
        "ser" => ser(cx),
        "params" => params(cx),
        "sql" => sql(cx),
        "ladder" => ladder(cx),
        "inject" => inject(cx),
        "clock" => clock(cx),
        _ => return false,
    }
    true
}

// ---------------------------------------------------------------------------------------------
// C02 / C18: parsing, spans, error locations

fn char_offset(text: &str, line: usize, col: usize) -> Option<usize> {
    // index (in chars) of the character at (line, col); col counts characters
    let mut l = 0usize;
    let mut c = 0usize;
    for (i, ch) in text.chars().enumerate() {
        if l == line && c == col {
            return Some(i);
        }
        if ch == '\n' {
            l += 1;
            c = 0;
        } else {
            c += 1;
        }
    }
    if l == line && c == col {
        Some(text.chars().count())
    } else {
        None
    }
}

fn span_text(text: &str, sp: &J) -> Option<String> {
    let a = sp.as_array()?;
    let s = char_offset(text, a[0].as_u64()? as usize, a[1].as_u64()? as usize)?;
    let e = char_offset(text, a[2].as_u64()? as usize, a[3].as_u64()? as usize)?;
    if s > e {
        return None;
    }
    Some(text.chars().skip(s).take(e - s).collect())
}

fn collect_spans(ast: &J, out: &mut Vec<J>) {
    match ast {
        J::Object(o) => {
            if o.contains_key("k") && o.get("k").and_then(|k| k.as_str()) != Some("paren") {
                if let Some(sp) = o.get("sp") {
                    out.push(sp.clone());
                }
            }
            for (k, v) in o {
                if k != "sp" && k != "argsp" && k != "p" {
                    collect_spans(v, out);
                }
            }
        }
        J::Array(a) => a.iter().for_each(|v| collect_spans(v, out)),
        _ => {}
    }
}

fn parse_record(cx: &mut Raw, src: &str, want: Option<&T>, must: Option<&str>, subs: usize) {
    let c = compile_record(src, true, true, false);
    let mut j = c.json;
    if let Some(w) = want {
        j["want"] = w.to_json();
    }
    if let Some(m) = must {
        j["must"] = J::from(m);
    }
    // every token's spanned text, re-lexed on its own
    if let Some(toks) = j.get("tokens").and_then(|t| t.as_array()).cloned() {
        if toks.len() <= 60 {
            let mut relex = Vec::new();
            for t in toks.iter() {
                match span_text(src, &t["sp"]) {
                    Some(txt) => {
                        let (ts, _) = crate::proj::tokenize(&txt);
                        relex.push(J::Array(ts.into_iter().map(|mut x| { x.as_object_mut().unwrap().remove("sp"); x }).collect()));
                    }
                    None => relex.push(J::Array(vec![])),
                }
            }
            j["relex"] = J::Array(relex);
        }
    }
    // some sub-expressions, compiled on their own
    if subs > 0 {
        if let Some(ast) = j.get("ast").cloned() {
            let mut spans = Vec::new();
            collect_spans(&ast, &mut spans);
            let mut chosen = Vec::new();
            for _ in 0..subs.min(spans.len()) {
                let sp = spans[cx.rng.below(spans.len() as u64) as usize].clone();
                if let Some(txt) = span_text(src, &sp) {
                    let sc = compile_record(&txt, false, true, false);
                    let mut sj = json!({"sp": sp, "text": txt, "compile": sc.json["compile"]});
                    if let Some(a) = sc.json.get("ast") {
                        sj["ast"] = a.clone();
                    }
                    chosen.push(sj);
                } else {
                    chosen.push(json!({"sp": sp, "text": "", "compile": {"o":"err","c":"span"}}));
                }
            }
            j["subs"] = J::Array(chosen);
        }
    }
    cx.emit(j);
}

fn corrupt(src: &str, r: &mut Rng) -> String {
    let chars: Vec<char> = src.chars().collect();
    if chars.is_empty() {
        return ")".to_string();
    }
    let mut out = chars.clone();
    let i = r.below(chars.len() as u64) as usize;
    match r.below(6) {
        0 => {
            out.remove(i);
        }
        1 => out.insert(i, *r.pick(&[')', '(', ']', '?', ':', '"', '\\', '\n', '@', '#', 'é', '=', '|', '&', '.', ','])),
        2 => out[i] = *r.pick(&[')', '(', '}', '{', '\'', '$', '~', '\n', 'u', '0']),
        3 => out.truncate(i),
        4 => {
            let j = r.below(chars.len() as u64) as usize;
            out.swap(i, j);
        }
        _ => {
            let seg: Vec<char> = out[i..].iter().take(3).cloned().collect();
            for (k, c) in seg.into_iter().enumerate() {
                out.insert(i + k, c);
            }
        }
    }
    out.into_iter().collect()
}

/// Flat operator sequences: atoms joined by binary operators / ternary tokens, with unary prefixes.
fn flat_sequences(cx: &mut Raw, nops: usize) {
    let bins = ["||", "&&", "<", "<=", "==", "!=", ">=", ">", "in", "+", "-", "*", "/", "%", "?", ":"];
    let uns = ["", "!", "!!", "-", "--"];
    let atoms = ["a", "b", "c", "d"];
    let total = bins.len().pow(nops as u32);
    for code in 0..total {
        let mut ops = Vec::new();
        let mut c0 = code;
        for _ in 0..nops {
            ops.push(bins[c0 % bins.len()]);
            c0 /= bins.len();
        }
        // unary prefixes: all combinations for <= 1 operator, seeded choice above
        let ucombos: Vec<Vec<&str>> = if nops <= 1 {
            let mut v = Vec::new();
            for u0 in uns.iter() {
                for u1 in uns.iter() {
                    v.push(vec![*u0, *u1]);
                }
            }
            v
        } else {
            (0..(if cx.thorough { 6 } else { 2 })).map(|_| (0..=nops).map(|_| *cx.rng.pick(&uns)).collect()).collect()
        };
        for us in ucombos {
            let mut s = String::new();
            for i in 0..=nops {
                if i > 0 {
                    s.push(' ');
                    s.push_str(ops[i - 1]);
                    s.push(' ');
                }
                s.push_str(us[i.min(us.len() - 1)]);
                s.push_str(atoms[i]);
                if cx.rng.below(9) == 0 {
                    s.push_str(*cx.rng.pick(&[".f", "[0]", ".g()", "(1)"]));
                }
            }
            let nsub = if cx.rng.below(4) == 0 { 2 } else { 0 };
            parse_record(cx, &s, None, None, nsub);
        }
    }
}

pub fn parse(cx: &mut Raw) {
    for nops in 0..=2usize {
        flat_sequences(cx, nops);
    }
    if cx.thorough {
        flat_sequences(cx, 3);
    } else {
        // a seeded sample of the 3-operator sequences
        let bins = ["||", "&&", "<", "==", "in", "+", "-", "*", "/", "%", "?", ":"];
        for _ in 0..1500 {
            let s = format!("a {} b {} c {} d", cx.rng.pick(&bins), cx.rng.pick(&bins), cx.rng.pick(&bins));
            parse_record(cx, &s, None, None, 1);
        }
    }
    // generated deeper trees, rendered with minimal / full / random parentheses and random whitespace
    let g = ExprGen { vars: vec!["a".into(), "b".into(), "c".into()], progs: vec![], funcs: vec!["f1".into()], macros: true, fstrings: false, matches: true };
    for i in 0..cx.n {
        let t = nonneg(&g.expr(&mut cx.rng, 2 + (i % 4) as u32));
        for (parens, ws) in [(Parens::Min, false), (Parens::Full, false), (Parens::Random, true), (Parens::Min, true)] {
            let src = render(&t, parens, ws, &mut cx.rng);
            parse_record(cx, &src, Some(&t), Some("ok"), 3);
            if i % 3 == 0 && parens == Parens::Random {
                let bad = corrupt(&src, &mut cx.rng);
                parse_record(cx, &bad, None, None, 0);
            }
        }
    }
    // multi-byte characters and newlines inside and around tokens
    for src in ["\"é\"+\n  'ab𝄞' ", "a\n+\n\tb", "  x  ", "[1,\n 2 ,\"𝄞𝄞\"\n]", "{\"k\":\n1}.k", "f(\n)", "a ? b\n: c", "match x { case int: 1,\n case _: 2 }", "match x {}", "'é' in ['é']", "b\"\\xff\" + b'a'", "r'a\\n'", "1.5e3 + .5", "0x1F + 7u", "a.b.c(d)[e].f", "!-a", "-!a", "- - a", "!!!a", "a ? b : c ? d : e", "a ? b ? c : d : e", "(a ? b : c) ? d : e", "a in b in c", "a < b == c", "[a,]", "{a:b,}", "f(a,)", "x.in", "x.y.match", "1 +", "", " ", ")", "a b", "a ? b", "a ? : c", "match", "match x {case}", "\"abc", "'\\q'", "0x", "1e", "1.5.2", "a..b", "a.[b]", "f(,)", "[,]", "{,}", "{a}", "{a:}", "a ?? b", "a = b", "a | b", "a & b", "a ! b", "$", "é", "a\r\nb",
        // errors inside an embedded expression of an f-string, on lines shorter than the embedded text
        "'prefix: ' + f'{a +\n}'", "f'{\n1 +\n}'", "   x + f'{ (a\n }'", "f'{ 1 2 }'", "f'{ a b }'", "f'x{ a ) }'", "f'{ a ? b }'", "f'{ a ? b : c }{ match x { case _: 1 } }'", " \n f'{ 1 + }'", "a +\n f'x{ b & }'", " \n(\n f'{ (1 }' )", "\n\nf'{ a b }{ ) }'", "f'{ }'", " \n[ f'{ 1 + 2 }', f'{ \"a\" & }' ]"] {
        parse_record(cx, src, None, None, 3);
    }
}

/// The same tree without negative numeric literals (they render as a unary minus).
fn nonneg(t: &T) -> T {
    match t {
        T::Lit(V::Int(i)) if *i < 0 => T::Lit(V::Int(i.wrapping_neg().max(0))),
        T::Lit(V::Dbl(f)) if f.is_sign_negative() => T::Lit(V::Dbl(-*f)),
        T::Lit(_) | T::Id(_) => t.clone(),
        T::Un { op, n, e } => T::Un { op: *op, n: *n, e: Box::new(nonneg(e)) },
        T::Bin { op, l, r } => T::Bin { op: op.clone(), l: Box::new(nonneg(l)), r: Box::new(nonneg(r)) },
        T::Tern { c, a, b } => T::Tern { c: Box::new(nonneg(c)), a: Box::new(nonneg(a)), b: Box::new(nonneg(b)) },
        T::List(es) => T::List(es.iter().map(nonneg).collect()),
        T::Map(kv) => T::Map(kv.iter().map(|(k, v)| (nonneg(k), nonneg(v))).collect()),
        T::Sel { e, f } => T::Sel { e: Box::new(nonneg(e)), f: f.clone() },
        T::Idx { e, i } => T::Idx { e: Box::new(nonneg(e)), i: Box::new(nonneg(i)) },
        T::Call { f, args } => T::Call { f: f.clone(), args: args.iter().map(nonneg).collect() },
        T::MCall { r, f, args } => T::MCall { r: Box::new(nonneg(r)), f: f.clone(), args: args.iter().map(nonneg).collect() },
        T::FStr(s) => T::FStr(s.clone()),
        T::Match { e, cases } => T::Match {
            e: Box::new(nonneg(e)),
            cases: cases.iter().map(|(p, e)| (match p { Pat::Cmp(o, v) => Pat::Cmp(o.clone(), nonneg(v)), o => o.clone() }, nonneg(e))).collect(),
        },
        T::Paren(e) => T::Paren(Box::new(nonneg(e))),
    }
}

// ---------------------------------------------------------------------------------------------
// C13: literals

fn eval_text(src: &str) -> J {
    let res = std::panic::catch_unwind(|| {
        let mut ctx = rscel::CelContext::new();
        if let Err(e) = ctx.add_program_str("main", src) {
            return crate::val::err_outcome(&e);
        }
        let b = rscel::BindContext::new();
        crate::val::outcome(&ctx.exec("main", &b))
    });
    match res {
        Ok(o) => o,
        Err(p) => crate::val::crash(&crate::run::panic_msg(p)),
    }
}

fn lit_record(cx: &mut Raw, lit: &str, neg: bool, want: Option<V>) {
    let text = if neg { format!("-{}", lit) } else { lit.to_string() };
    let mut j = json!({"chars": crate::val::cps(lit), "text": text, "neg": neg, "out": eval_text(&text)});
    if let Some(w) = want {
        j["want"] = w.to_json();
    }
    cx.emit(j);
}

fn spell_char(c: char, q: char, r: &mut Rng, bytes: bool) -> String {
    let cp = c as u32;
    let simple = match c {
        '\u{7}' => Some("\\a"),
        '\u{8}' => Some("\\b"),
        '\u{c}' => Some("\\f"),
        '\n' => Some("\\n"),
        '\r' => Some("\\r"),
        '\t' => Some("\\t"),
        '\u{b}' => Some("\\v"),
        '\\' => Some("\\\\"),
        '\'' => Some("\\'"),
        '"' => Some("\\\""),
        _ => None,
    };
    let must_escape = c == '\\' || c == q;
    let mut options: Vec<String> = Vec::new();
    if !must_escape && !(bytes && cp > 0x7f) {
        options.push(c.to_string());
    }
    if let Some(s) = simple {
        options.push(s.to_string());
    }
    if cp <= 0xff {
        options.push(format!("\\x{:02x}", cp));
        options.push(format!("\\X{:02X}", cp));
        options.push(format!("\\{:03o}", cp));
    } else if cp <= 0o777 && !bytes {
        options.push(format!("\\{:03o}", cp));
    }
    if !bytes {
        if cp <= 0xffff {
            options.push(format!("\\u{:04x}", cp));
            options.push(format!("\\u{:04X}", cp));
        }
        options.push(format!("\\U{:08x}", cp));
    }
    r.pick(&options).clone()
}

fn rand_scalar(r: &mut Rng) -> char {
    let ladder = [0u32, 1, 9, 10, 0x1f, 0x20, 0x27, 0x22, 0x5c, 0x7b, 0x7d, 0x7f, 0x80, 0xff, 0x100, 0x1ff, 0x7ff, 0x800, 0xd7ff, 0xe000, 0xffff, 0x10000, 0x10ffff];
    loop {
        let cp = match r.below(4) {
            0 => *r.pick(&ladder),
            1 => r.below(0x80) as u32,
            2 => r.below(0x3000) as u32,
            _ => r.below(0x110000) as u32,
        };
        if let Some(c) = char::from_u32(cp) {
            return c;
        }
    }
}

pub fn literals(cx: &mut Raw) {
    // integers: boundaries in every spelling, random 64-bit
    let mut ints: Vec<u64> = vec![0, 1, 7, 9, 10, 255, 256, 65535, 1 << 31, (1 << 31) - 1, 1 << 32, 1 << 53, (1 << 53) + 1, i64::MAX as u64 - 1, i64::MAX as u64, i64::MAX as u64 + 1, i64::MAX as u64 + 2, u64::MAX - 1, u64::MAX, 0xabcdef, 0xABCDEF0123, 0xdeadbeef, 0xffffffffffffffff, 0x7fffffffffffffff, 0x8000000000000000];
    for _ in 0..cx.n {
        ints.push(match cx.rng.below(3) {
            0 => cx.rng.next(),
            1 => cx.rng.next() >> cx.rng.below(64),
            _ => (1u64 << cx.rng.below(64)).wrapping_add(cx.rng.range(-2, 2) as u64),
        });
    }
    for v in ints.iter() {
        let as_int = if *v <= i64::MAX as u64 { Some(V::Int(*v as i64)) } else { None };
        for neg in [false, true] {
            lit_record(cx, &format!("{}", v), neg, as_int.clone());
            lit_record(cx, &format!("0x{:x}", v), neg, as_int.clone());
            lit_record(cx, &format!("0X{:X}", v), neg, as_int.clone());
        }
        lit_record(cx, &format!("{}u", v), false, Some(V::Uint(*v)));
        lit_record(cx, &format!("{}U", v), false, Some(V::Uint(*v)));
        lit_record(cx, &format!("0x{:x}u", v), false, Some(V::Uint(*v)));
        lit_record(cx, &format!("0x{:X}U", v), false, Some(V::Uint(*v)));
        lit_record(cx, &format!("00{}", v), false, as_int.clone());
    }
    for s in ["18446744073709551616", "18446744073709551616u", "99999999999999999999999", "0x10000000000000000", "0x10000000000000000u", "0x", "0xu", "0xg", "1u1", "0x1.5", "9223372036854775808", "9223372036854775809", "0x8000000000000000", "0xffffffffffffffff", "340282366920938463463374607431768211456u"] {
        lit_record(cx, s, false, None);
        lit_record(cx, s, true, None);
    }
    // doubles: boundary values and random bit patterns in several spellings
    let mut ds: Vec<f64> = crate::pools::doubles().into_iter().filter(|d| d.is_finite() && !d.is_sign_negative()).collect();
    for _ in 0..cx.n {
        let d = crate::pools::rand_f64(&mut cx.rng).abs();
        if d.is_finite() {
            ds.push(d);
        }
    }
    for d in ds.iter() {
        let short = format!("{:?}", d);
        let spellings: Vec<String> = vec![
            if short.contains('.') || short.contains('e') { short.clone() } else { format!("{}.0", short) },
            format!("{:e}", d),
            format!("{:E}", d),
            format!("{:.17e}", d),
            format!("{:.20e}", d),
        ];
        for s in spellings {
            let s = if s.contains('.') || s.contains('e') || s.contains('E') { s } else { format!("{}.0", s) };
            lit_record(cx, &s, cx.count % 5 == 0, Some(V::Dbl(*d)));
        }
        if *d < 1.0 && *d > 1e-5 {
            let s = format!("{}", d);
            if let Some(stripped) = s.strip_prefix("0.") {
                lit_record(cx, &format!(".{}", stripped), false, Some(V::Dbl(*d)));
            }
        }
    }
    for s in ["1e", "1e+", "1.e5", "1.", "1.5e+3", "1.5E-3", "1e400", "1e-400", "0.0000000000000000000000000000000000000000000001", "123456789012345678901234567890.0", "4.9e-324", "2.4703282292062327e-324", "2.4703282292062328e-324", "1.7976931348623157e308", "1.7976931348623159e308", "9007199254740993.0", "0.1e1", "00.5", "5e0"] {
        lit_record(cx, s, false, None);
    }
    // strings and byte strings: every escape form chosen at random per character
    let nstr = cx.n * 2 + 200;
    for i in 0..nstr {
        let len = cx.rng.below(7) as usize;
        let q = if cx.rng.chance(1, 2) { '\'' } else { '"' };
        if i % 3 == 2 {
            let bytes: Vec<u8> = (0..len).map(|_| if cx.rng.chance(1, 3) { *cx.rng.pick(&[0u8, 0x27, 0x22, 0x5c, 0x7f, 0x80, 0xff, 0x0a]) } else { cx.rng.below(256) as u8 }).collect();
            let mut s = String::from("b");
            s.push(q);
            for b in bytes.iter() {
                s.push_str(&spell_char(*b as char, q, &mut cx.rng, true));
            }
            s.push(q);
            lit_record(cx, &s, false, Some(V::Bytes(bytes)));
        } else {
            let chars: Vec<char> = (0..len).map(|_| rand_scalar(&mut cx.rng)).collect();
            let want: String = chars.iter().collect();
            let fmt = i % 9 == 4;
            let mut s = String::new();
            if fmt {
                s.push('f');
            }
            s.push(q);
            for c in chars.iter() {
                let sp = spell_char(*c, q, &mut cx.rng, false);
                if fmt && (sp == "{" || sp == "}") {
                    s.push_str(&sp);
                    s.push_str(&sp);
                } else {
                    s.push_str(&sp);
                }
            }
            s.push(q);
            lit_record(cx, &s, false, Some(V::Str(want)));
        }
    }
    // raw strings
    for body in ["", "a\\n", "\\", "\\\\x41", "é\\u00e9", "{x}", "a\"b", "\\'"] {
        for q in ['\'', '"'] {
            if body.contains(q) {
                continue;
            }
            lit_record(cx, &format!("r{}{}{}", q, body, q), false, Some(V::Str(body.to_string())));
        }
    }
    // malformed / truncated escapes, invalid code points, unterminated literals
    let bad = ["\\x", "\\x4", "\\xg1", "\\u", "\\u12", "\\u123", "\\u12g4", "\\U", "\\U0001F60", "\\U00110000", "\\UFFFFFFFF", "\\ud800", "\\uDFFF", "\\U0000D800", "\\0", "\\01", "\\8", "\\089", "\\400", "\\777", "\\", "\\1", "\\12"];
    for b in bad {
        for (pre, q) in [("", '\''), ("", '"'), ("b", '"'), ("f", '\'')] {
            lit_record(cx, &format!("{}{}{}{}", pre, q, b, q), false, None);
            lit_record(cx, &format!("{}{}ab{}cd{}", pre, q, b, q), false, None);
            lit_record(cx, &format!("{}{}{}", pre, q, b), false, None);
        }
    }
    for s in ["'", "\"", "'abc", "\"abc'", "b'", "r'", "f'", "f'}'", "f'a}b'", "f'{{'", "f'}}'", "f'{{}}'", "true", "false", "null", "''", "\"\"", "b''", "'\\x+4'", "'\\u+041'", "b'\\x+f'", "'\\x-1'", "'\\x 1'", "'\\U+0000041'", "'\\u0041'", "'\\U0001F600'", "'\\101'", "b'\\101'", "b'\\377'", "b'\\xff'", "'\\xff'", "'\\X41'", "b\"é\""] {
        lit_record(cx, s, false, None);
    }
}

// ---------------------------------------------------------------------------------------------
// C01: arbitrary source text, and nesting ladders in child processes

fn fuzz_record(cx: &mut Raw, src: &str) {
    let c = compile_record(src, true, false, false);
    let mut j = c.json;
    if let Some(prog) = c.program {
        let res = std::panic::catch_unwind(std::panic::AssertUnwindSafe(|| {
            let mut ctx = rscel::CelContext::new();
            ctx.add_program("main", prog);
            let mut b = rscel::BindContext::new();
            b.bind_param("a", rscel::CelValue::from_int(1));
            b.bind_param("b", rscel::CelValue::from_string("s".to_string()));
            crate::val::outcome(&ctx.exec("main", &b))
        }));
        j["exec"] = match res {
            Ok(o) => o,
            Err(p) => crate::val::crash(&crate::run::panic_msg(p)),
        };
    }
    cx.emit(j);
}

pub fn fuzz(cx: &mut Raw) {
    let g = full_gen();
    let toks = ["(", ")", "[", "]", "{", "}", ",", ".", ":", "?", "+", "-", "*", "/", "%", "!", "<", "<=", "==", "!=", ">=", ">", "||", "&&", "in", "match", "case", "_", "null", "true", "false",
        "a", "b", "size", "has", "map", "x", "0", "1", "9223372036854775807", "18446744073709551615u", "1.5", "1e309", ".5", "0x1f", "'s'", "\"é\"", "b'\\xff'", "r'\\'", "f'{a}'", "f'{{'", "int", "dyn", "type", " ", "\n", "\t"];
    for i in 0..cx.n {
        let t = g.expr(&mut cx.rng, 1 + (i % 4) as u32);
        let src = render(&t, Parens::Random, true, &mut cx.rng);
        fuzz_record(cx, &src);
        // token-level mutation
        let mut s = src.clone();
        for _ in 0..(1 + cx.rng.below(3)) {
            s = corrupt(&s, &mut cx.rng);
        }
        fuzz_record(cx, &s);
        // a random token soup
        let n = 1 + cx.rng.below(12);
        let soup: String = (0..n).map(|_| *cx.rng.pick(&toks)).collect::<Vec<_>>().join(if cx.rng.chance(1, 2) { " " } else { "" });
        fuzz_record(cx, &soup);
        // random UTF-8
        let n = cx.rng.below(16);
        let rnd: String = (0..n)
            .map(|_| match cx.rng.below(5) {
                0 => char::from_u32(cx.rng.below(0x80) as u32).unwrap_or('a'),
                1 => *cx.rng.pick(&['é', 'ß', '𝄞', '\u{0}', '\u{7f}', '\u{feff}', '\u{2028}', '"', '\'', '\\', '{', '}']),
                2 => char::from_u32(cx.rng.below(0x110000) as u32).unwrap_or('?'),
                _ => *cx.rng.pick(&['a', '1', '(', ')', '+', '.', ' ', '[', 'u', 'x', 'e', '-']),
            })
            .collect();
        fuzz_record(cx, &rnd);
    }
}

fn ladder_src(shape: &str, d: usize) -> String {
    match shape {
        "parens" => format!("{}1{}", "(".repeat(d), ")".repeat(d)),
        "lists" => format!("{}1{}", "[".repeat(d), "]".repeat(d)),
        "maps" => format!("{}1{}", "{'k':".repeat(d), "}".repeat(d)),
        "not" => format!("{}true", "!".repeat(d)),
        "neg" => format!("{}1", "-".repeat(d)),
        "notparen" => format!("{}true{}", "!(".repeat(d), ")".repeat(d)),
        "member" => format!("a{}", ".b".repeat(d)),
        "index" => format!("a{}", "[0]".repeat(d)),
        "calls" => format!("{}1{}", "size(".repeat(d), ")".repeat(d)),
        "ternary" => format!("{}1", "true ? 1 : ".repeat(d)),
        "ternary_cond" => format!("{}true{}", "(".repeat(d), " ? true : false)".repeat(d)),
        "match" => format!("{}1{}", "match 1 { case _: ".repeat(d), "}".repeat(d)),
        "fstring" => {
            let mut s = "1".to_string();
            for i in 0..d {
                let q = if i % 2 == 0 { '\'' } else { '"' };
                s = format!("f{}{{{}}}{}", q, s, q);
            }
            s
        }
        "macro" => format!("{}1{}", "[1].map(x, ".repeat(d), ")".repeat(d)),
        "add" => format!("1{}", " + 1".repeat(d)),
        "or" => format!("false{}", " || false".repeat(d)),
        "binparen" => format!("{}1{}", "(1 + ".repeat(d), ")".repeat(d)),
        _ => "1".to_string(),
    }
}

pub fn ladder(cx: &mut Raw) {
    let shapes = ["parens", "lists", "maps", "not", "neg", "notparen", "member", "index", "calls", "ternary", "ternary_cond", "match", "fstring", "macro", "add", "or", "binparen"];
    let depths: Vec<usize> = if cx.thorough { vec![4, 8, 12, 16, 24, 32, 48, 64, 128, 256, 512, 1024, 4096] } else { vec![4, 8, 16, 32, 64, 256] };
    let exe = std::env::current_exe().expect("exe");
    for shape in shapes {
        for d in depths.iter() {
            for thread in [false, true] {
                let src = ladder_src(shape, *d);
                let mut cmd = std::process::Command::new(&exe);
                cmd.arg("child-src");
                if thread {
                    cmd.arg("--thread");
                }
                cmd.stdin(std::process::Stdio::piped()).stdout(std::process::Stdio::piped()).stderr(std::process::Stdio::null());
                let mut child = cmd.spawn().expect("spawn");
                {
                    use std::io::Write as _;
                    let mut stdin = child.stdin.take().unwrap();
                    let _ = stdin.write_all(src.as_bytes());
                }
                let out = child.wait_with_output().expect("child");
                let text = String::from_utf8_lossy(&out.stdout).to_string();
                let outcome = if out.status.success() {
                    text.lines().find(|l| l.starts_with('{')).and_then(|l| serde_json::from_str::<J>(l).ok()).unwrap_or(crate::val::crash("no output"))
                } else if out.status.code() == Some(97) {
                    crate::val::crash("timeout in child")
                } else {
                    crate::val::crash(&format!("child died: {:?}", out.status))
                };
                cx.emit(json!({"kind":"ladder","shape":shape,"depth":d,"thread":thread,"out":outcome,"text": if src.len() > 120 { format!("{}...", &src[..120]) } else { src.clone() }}));
            }
        }
    }
}

// ---------------------------------------------------------------------------------------------
// C19: serialization round trips

fn variants_of(code: &[rscel::ByteCode], out: &mut std::collections::BTreeSet<String>) {
    fn val(v: &rscel::CelValue, out: &mut std::collections::BTreeSet<String>) {
        use rscel::CelValue as C;
        let n = match v {
            C::Int(_) => "Int",
            C::UInt(_) => "UInt",
            C::Float(_) => "Float",
            C::Bool(_) => "Bool",
            C::String(_) => "String",
            C::Bytes(_) => "Bytes",
            C::List(l) => {
                l.iter().for_each(|x| val(x, out));
                "List"
            }
            C::Map(m) => {
                m.values().for_each(|x| val(x, out));
                "Map"
            }
            C::Null => "Null",
            C::Ident(_) => "Ident",
            C::Type(_) => "Type",
            C::TimeStamp(_) => "TimeStamp",
            C::Duration(_) => "Duration",
            C::ByteCode(bc) => {
                let inner: Vec<rscel::ByteCode> = bc.iter().cloned().collect();
                variants_of(&inner, out);
                "ByteCode"
            }
            C::Err(_) => "Err",
            _ => "Other",
        };
        out.insert(n.to_string());
    }
    for c in code {
        let name = format!("{:?}", c);
        let n = match c {
            rscel::ByteCode::Push(v) => {
                val(v, out);
                "Push".to_string()
            }
            rscel::ByteCode::Jmp(_) => "Jmp".to_string(),
            rscel::ByteCode::JmpCond { .. } => "JmpCond".to_string(),
            rscel::ByteCode::MkList(_) => "MkList".to_string(),
            rscel::ByteCode::MkDict(_) => "MkDict".to_string(),
            rscel::ByteCode::Call(_) => "Call".to_string(),
            rscel::ByteCode::FmtString(_) => "FmtString".to_string(),
            _ => {
                // POP -> Pop
                let l = name.to_lowercase();
                let mut c = l.chars();
                match c.next() {
                    Some(f) => f.to_uppercase().collect::<String>() + c.as_str(),
                    None => l,
                }
            }
        };
        out.insert(n);
    }
}

fn exec_prog(p: &rscel::Program, bind: &[(String, V)]) -> J {
    let res = std::panic::catch_unwind(std::panic::AssertUnwindSafe(|| {
        let mut ctx = rscel::CelContext::new();
        ctx.add_program("main", p.clone());
        let mut b = rscel::BindContext::new();
        for (k, v) in bind {
            if let Some(c) = v.to_cel() {
                b.bind_param(k, c);
            }
        }
        crate::val::outcome(&ctx.exec("main", &b))
    }));
    res.unwrap_or_else(|p| crate::val::crash(&crate::run::panic_msg(p)))
}

fn ser_record(cx: &mut Raw, src: &str, binds: &[Vec<(String, V)>]) {
    let prog = match rscel::Program::from_source(src) {
        Ok(p) => p,
        Err(_) => return,
    };
    let code: Vec<rscel::ByteCode> = prog.bytecode().iter().cloned().collect();
    let mut vs = std::collections::BTreeSet::new();
    variants_of(&code, &mut vs);
    let mut params: Vec<String> = prog.params().iter().map(|s| s.to_string()).collect();
    params.sort();
    let mut fmts = Vec::new();
    for fmt in ["json", "bincode"] {
        let rt: Result<Result<rscel::Program, String>, String> = if fmt == "json" {
            serde_json::to_string(&prog).map_err(|e| e.to_string()).map(|s| serde_json::from_str::<rscel::Program>(&s).map_err(|e| e.to_string()))
        } else {
            bincode::serialize(&prog).map_err(|e| e.to_string()).map(|b| bincode::deserialize::<rscel::Program>(&b).map_err(|e| e.to_string()))
        };
        match rt {
            Err(e) => fmts.push(json!({"fmt":fmt,"ser_ok":false,"de_ok":false,"source_eq":false,"params_eq":false,"runs":[],"msg":e})),
            Ok(Err(e)) => fmts.push(json!({"fmt":fmt,"ser_ok":true,"de_ok":false,"source_eq":false,"params_eq":false,"runs":[],"msg":e})),
            Ok(Ok(p2)) => {
                let mut params2: Vec<String> = p2.params().iter().map(|s| s.to_string()).collect();
                params2.sort();
                let runs: Vec<J> = binds.iter().map(|b| json!({"orig": exec_prog(&prog, b), "rt": exec_prog(&p2, b)})).collect();
                fmts.push(json!({"fmt":fmt,"ser_ok":true,"de_ok":true,"source_eq":p2.source() == prog.source(),"params_eq":params2 == params,"runs":runs}));
            }
        }
    }
    cx.emit(json!({"text":src,"variants":vs.into_iter().collect::<Vec<_>>(),"fmts":fmts}));
}

pub fn ser(cx: &mut Raw) {
    let binds: Vec<Vec<(String, V)>> = vec![
        vec![],
        vec![("a".into(), V::Int(1)), ("b".into(), V::Int(0)), ("c".into(), V::Str("k".into())), ("m".into(), V::Map(vec![("a".into(), V::Int(1))]))],
        vec![("a".into(), V::List(vec![V::Int(1), V::Int(2)])), ("b".into(), V::Bool(true)), ("c".into(), V::Null), ("m".into(), V::Dbl(2.5))],
    ];
    // constants of every value type, folded by the compiler
    for src in [
        "9223372036854775807", "(-9223372036854775807 - 1)", "18446744073709551615u", "0u", "1.5", "5e-324", "1.7976931348623157e308", "-0.0", "1.0/0.0", "-1.0/0.0", "0.0/0.0",
        "true", "null", "'é𝄞\\n'", "b'\\x00\\xff'", "[1, 2u, 3.5, 'x', b'y', null, true, [1], {'k': 2}]", "{'a': [1, {'b': null}], 'é': 1.0/0.0}", "int", "type(1)", "[int, string, type(null)]",
        "timestamp('2024-02-29T12:34:56.789Z')", "timestamp(0)", "duration('1h2m3s')", "duration(1, 500000000)", "duration('1ms')", "duration(0, 1000000)",
        // time constants far from the present (any fixed-width sub-second encoding of them overflows)
        "timestamp('2300-01-01T00:00:00Z')", "timestamp('1600-01-01T00:00:00Z')", "timestamp('0001-01-01T00:00:00Z')", "timestamp('9999-12-31T23:59:59Z')",
        "timestamp(253402300799)", "timestamp(-62135596800)", "[timestamp('2262-04-12T00:00:00Z'), timestamp('1677-09-21T00:00:00Z')]",
        "duration(9000000000, 0)", "duration(-9000000000, 0)", "duration(9007199254740, 993000000)", "duration(-9007199254740, -993000000)", "duration(9223372036854775)",
        "[duration(9007199254741, 1000000), timestamp(9007199254741)]", "duration('2540400h')", "{'t': timestamp('3000-06-01T00:00:00Z')}",
        "b''", "''", "[]", "{}", "[b'', '', [], {}]", "{'k': b''}", "bytes('')", "f(b'', '')",
        "1/0", "[1/0]", "{'k': 1 % 0}", "size(5)", "[1, 2][5]", "-(-9223372036854775807 - 1)",
        "a + b", "a.b.c", "a[b]", "f(a, b + 1)", "a.f(b)", "a ? b : c", "a || b && !c", "-a", "a in b", "a < b", "a <= b", "a == b", "a != b", "a >= b", "a > b", "a - b", "a * b", "a / b", "a % b",
        "[a, b]", "{'k': a, c: b}", "a.map(x, x + b)", "a.filter(x, x > b)", "a.reduce(acc, x, acc + x, 0)", "has(m.a)", "coalesce(m.zz, a)", "f'{a}-{b}'", "match a { case int: 1, case > b: 2, case _: 3 }",
        "type(now())", "size(a) + size(c)", "m.a + m['a']",
    ] {
        ser_record(cx, src, &binds);
    }
    let g = full_gen();
    for i in 0..cx.n {
        let t = g.expr(&mut cx.rng, 1 + (i % 4) as u32);
        let src = render(&t, Parens::Min, false, &mut cx.rng);
        ser_record(cx, &src, &binds);
    }
}

// ---------------------------------------------------------------------------------------------
// C17: reported parameters

fn params_record(cx: &mut Raw, t: &T, position: &str) {
    let src = render(t, Parens::Min, false, &mut cx.rng);
    let c = compile_record(&src, true, false, false);
    let mut j = c.json;
    j["tree"] = t.to_json();
    j["position"] = J::from(position);
    let idents: Vec<String> = j.get("tokens").and_then(|t| t.as_array()).map(|ts| ts.iter().filter(|t| t["k"] == "ident").filter_map(|t| t["v"].as_str().map(|s| s.to_string())).collect()).unwrap_or_default();
    // identifiers inside f-string segments are source text too
    let mut idents = idents;
    fn fstr_idents(t: &T, out: &mut Vec<String>) {
        if let T::FStr(segs) = t {
            for s in segs {
                if let Seg::Expr(e) = s {
                    let txt = render_min(e);
                    let (toks, _) = crate::proj::tokenize(&txt);
                    for tk in toks {
                        if tk["k"] == "ident" {
                            if let Some(s) = tk["v"].as_str() {
                                out.push(s.to_string());
                            }
                        }
                    }
                }
            }
        }
    }
    let mut stack = vec![t.clone()];
    while let Some(x) = stack.pop() {
        fstr_idents(&x, &mut idents);
        match x {
            T::Un { e, .. } | T::Paren(e) | T::Sel { e, .. } => stack.push(*e),
            T::Bin { l, r, .. } => {
                stack.push(*l);
                stack.push(*r)
            }
            T::Tern { c, a, b } => {
                stack.push(*c);
                stack.push(*a);
                stack.push(*b)
            }
            T::List(es) => stack.extend(es),
            T::Map(kv) => kv.into_iter().for_each(|(k, v)| {
                stack.push(k);
                stack.push(v)
            }),
            T::Idx { e, i } => {
                stack.push(*e);
                stack.push(*i)
            }
            T::Call { args, .. } => stack.extend(args),
            T::MCall { r, args, .. } => {
                stack.push(*r);
                stack.extend(args)
            }
            T::Match { e, cases } => {
                stack.push(*e);
                for (p, e) in cases {
                    if let Pat::Cmp(_, v) = p {
                        stack.push(v)
                    }
                    stack.push(e)
                }
            }
            T::FStr(segs) => {
                for sg in segs {
                    if let Seg::Expr(e) = sg {
                        stack.push(e) // nested f-strings are text inside a token of the embedded expression
                    }
                }
            }
            _ => {}
        }
    }
    j["idents"] = json!(idents);
    j.as_object_mut().unwrap().remove("tokens");
    let mut filters = Vec::new();
    let mut relevance = Vec::new();
    if let Some(prog) = c.program {
        let reported: Vec<String> = prog.params().iter().map(|s| s.to_string()).collect();
        // filter against: the default bindings; bindings with some of the reported names bound
        for variant in 0..3 {
            let mut b = rscel::BindContext::new();
            let mut bound: Vec<String> = crate::gen::FUNC_NAMES.iter().filter(|n| !["bool", "int", "uint", "float", "double", "string", "bytes", "type", "timestamp", "duration", "dyn", "null_type"].contains(n)).map(|s| s.to_string()).collect();
            if variant >= 1 {
                for (i, n) in reported.iter().enumerate() {
                    if (i + variant) % 2 == 0 {
                        b.bind_param(n, rscel::CelValue::from_int(1));
                        bound.push(n.clone());
                    }
                }
            }
            let mut d = prog.details().clone();
            d.filter_from_bindings(&b);
            let mut f: Vec<String> = d.params().iter().map(|s| s.to_string()).collect();
            f.sort();
            filters.push(json!({"bound": bound, "filtered": f}));
        }
        // relevance: an identifier of the source that is not reported must not influence the result
        let mut uniq: Vec<String> = j["idents"].as_array().unwrap().iter().filter_map(|x| x.as_str().map(|s| s.to_string())).collect();
        uniq.sort();
        uniq.dedup();
        for name in uniq.iter().filter(|n| !reported.contains(n)).take(4) {
            let run = |v: rscel::CelValue| {
                let mut bind = vec![];
                for n in reported.iter() {
                    bind.push((n.clone(), V::Int(2)));
                }
                let res = std::panic::catch_unwind(std::panic::AssertUnwindSafe(|| {
                    let mut ctx = rscel::CelContext::new();
                    ctx.add_program("main", prog.clone());
                    let mut b = rscel::BindContext::new();
                    for (k, v) in bind.iter() {
                        b.bind_param(k, v.to_cel().unwrap());
                    }
                    b.bind_param(name, v);
                    crate::val::outcome(&ctx.exec("main", &b))
                }));
                res.unwrap_or_else(|p| crate::val::crash(&crate::run::panic_msg(p)))
            };
            let mut a = run(rscel::CelValue::from_int(2));
            let mut b2 = run(rscel::CelValue::from_string("other".to_string()));
            for o in [&mut a, &mut b2] {
                if let Some(m) = o.as_object_mut() {
                    m.remove("msg");
                }
            }
            relevance.push(json!({"name": name, "a": a, "b": b2}));
        }
    }
    j["filters"] = J::Array(filters);
    j["relevance"] = J::Array(relevance);
    cx.emit(j);
}

pub fn params(cx: &mut Raw) {
    // a variable in every syntactic position, nesting depth <= 2
    let q = || id("q");
    let positions: Vec<(&str, Box<dyn Fn(T) -> T>)> = vec![
        ("operand", Box::new(|v| bin("+", v, lit(V::Int(1))))),
        ("right-operand", Box::new(|v| bin("*", lit(V::Int(2)), v))),
        ("unary", Box::new(|v| un('-', 1, v))),
        ("call-argument", Box::new(|v| call("size", vec![v]))),
        ("second-call-argument", Box::new(|v| call("max", vec![lit(V::Int(1)), v]))),
        ("receiver", Box::new(|v| mcall(v, "size", vec![]))),
        ("method-argument", Box::new(|v| mcall(lit(V::Str("abc".into())), "contains", vec![v]))),
        ("macro-range", Box::new(|v| mcall(v, "map", vec![id("e"), id("e")]))),
        ("macro-body", Box::new(|v| mcall(T::List(vec![lit(V::Int(1))]), "map", vec![id("e"), bin("+", id("e"), v)]))),
        ("macro-predicate", Box::new(|v| mcall(T::List(vec![lit(V::Int(1))]), "map", vec![id("e"), v, id("e")]))),
        ("macro-transform", Box::new(|v| mcall(T::List(vec![lit(V::Int(1))]), "map", vec![id("e"), lit(V::Bool(true)), v]))),
        ("reduce-step", Box::new(|v| mcall(T::List(vec![lit(V::Int(1))]), "reduce", vec![id("acc"), id("e"), bin("+", id("acc"), v), lit(V::Int(0))]))),
        ("reduce-seed", Box::new(|v| mcall(T::List(vec![lit(V::Int(1))]), "reduce", vec![id("acc"), id("e"), id("acc"), v]))),
        ("filter-on-constant-list", Box::new(|v| mcall(T::List(vec![lit(V::Int(1)), lit(V::Int(2))]), "filter", vec![id("e"), bin(">", id("e"), v)]))),
        ("fstring", Box::new(|v| T::FStr(vec![Seg::Lit("x".into()), Seg::Expr(v)]))),
        ("index", Box::new(|v| idx(T::List(vec![lit(V::Int(1))]), v))),
        ("indexed", Box::new(|v| idx(v, lit(V::Int(0))))),
        ("map-key", Box::new(|v| T::Map(vec![(v, lit(V::Int(1)))]))),
        ("map-value", Box::new(|v| T::Map(vec![(lit(V::Str("k".into())), v)]))),
        ("list-element", Box::new(|v| T::List(vec![lit(V::Int(1)), v]))),
        ("select", Box::new(|v| sel(v, "f"))),
        ("match-scrutinee", Box::new(|v| T::Match { e: Box::new(v), cases: vec![(Pat::Any, lit(V::Int(1)))] })),
        ("match-pattern", Box::new(|v| T::Match { e: Box::new(lit(V::Int(1))), cases: vec![(Pat::Cmp("==".into(), v), lit(V::Int(1)))] })),
        ("match-arm", Box::new(|v| T::Match { e: Box::new(lit(V::Int(1))), cases: vec![(Pat::Type("string".into()), v), (Pat::Any, lit(V::Int(2)))] })),
        ("untaken-then", Box::new(|v| tern(lit(V::Bool(false)), v, lit(V::Int(1))))),
        ("untaken-else", Box::new(|v| tern(lit(V::Bool(true)), lit(V::Int(1)), v))),
        ("condition", Box::new(|v| tern(v, lit(V::Int(1)), lit(V::Int(2))))),
        ("or-right-of-true", Box::new(|v| bin("||", lit(V::Bool(true)), v))),
        ("and-right-of-false", Box::new(|v| bin("&&", lit(V::Bool(false)), v))),
        ("has", Box::new(|v| call("has", vec![sel(v, "f")]))),
        ("coalesce", Box::new(|v| call("coalesce", vec![lit(V::Null), v]))),
        ("in-list", Box::new(|v| bin("in", lit(V::Int(1)), T::List(vec![v])))),
        ("paren", Box::new(|v| T::Paren(Box::new(v)))),
        ("type-constructor", Box::new(|v| call("int", vec![v]))),
        // beside a clock call, which is never folded
        ("beside-clock-argument", Box::new(|v| call("min", vec![v, mcall(call("now", vec![]), "getFullYear", vec![])]))),
        ("clock-receiver-argument", Box::new(|v| mcall(call("now", vec![]), "getHours", vec![v]))),
        ("argument-after-clock", Box::new(|v| call("max", vec![call("int", vec![call("timestamp", vec![])]), v]))),
        ("clock-comparison", Box::new(|v| bin(">", call("now", vec![]), v))),
        ("clock-in-macro-body", Box::new(|v| mcall(T::List(vec![lit(V::Int(1))]), "map", vec![id("e"), bin("+", call("int", vec![call("now", vec![])]), v)]))),
    ];
    for (name, f) in positions.iter() {
        params_record(cx, &f(q()), name);
    }
    // a variable read outside a macro body although the macro's loop variable has the same name
    for (name, t) in [
        ("receiver-named-like-loop-variable", mcall(q(), "map", vec![q(), bin("+", q(), lit(V::Int(1)))])),
        ("receiver-named-like-loop-variable", mcall(q(), "all", vec![q(), bin(">", q(), lit(V::Int(0)))])),
        ("receiver-list-named-like-loop-variable", mcall(T::List(vec![q()]), "filter", vec![q(), lit(V::Bool(true))])),
        ("chained-macros-reusing-the-name", mcall(mcall(id("xs"), "filter", vec![q(), bin(">", q(), id("lim"))]), "map", vec![id("xs"), bin("*", id("xs"), lit(V::Int(2)))])),
        ("reduce-seed-named-like-accumulator", mcall(id("xs"), "reduce", vec![q(), id("e"), bin("+", q(), id("e")), q()])),
        ("sibling-argument-named-like-loop-variable", call("size", vec![T::List(vec![mcall(id("xs"), "map", vec![q(), q()]), q()])])),
    ] {
        params_record(cx, &t, name);
    }
    for (n1, f1) in positions.iter() {
        for (n2, f2) in positions.iter() {
            if n1 == n2 && !cx.thorough {
                continue;
            }
            if cx.thorough || cx.rng.below(3) == 0 {
                params_record(cx, &f1(f2(q())), &format!("{}/{}", n1, n2));
            }
        }
    }
    // several variables, generated programs
    let g = full_gen();
    for i in 0..cx.n {
        let t = g.expr(&mut cx.rng, 1 + (i % 4) as u32);
        params_record(cx, &t, "generated");
    }
}

// ---------------------------------------------------------------------------------------------
// C20: CEL -> SQL

fn sql_record(cx: &mut Raw, t: &T) {
    use rscel_to_sql::IntoSqlBuilder;
    let src = render(t, Parens::Min, false, &mut cx.rng);
    let res = std::panic::catch_unwind(|| {
        let prog = match rscel::Program::from_source(&src) {
            Ok(p) => p,
            Err(_) => return json!({"o":"nocompile"}),
        };
        match prog.ast().unwrap().into_sql_builder().and_then(|b| b.to_sql()) {
            Ok(sql) => json!({"o":"sql","text":sql.clone(),"cps":crate::val::cps(&sql)}),
            Err(_) => json!({"o":"unsupported"}),
        }
    });
    let out = res.unwrap_or_else(|p| crate::val::crash(&crate::run::panic_msg(p)));
    cx.emit(json!({"text":src,"want":t.to_json(),"out":out}));
}

pub fn sql(cx: &mut Raw) {
    let strs = ["", "a", "'", "''", "\\", "\\'", "--", ";", "\n", "a'; DROP TABLE x; --", "/*", "*/", "'--", "b'; --", "é", "x''y", "$$", "\"", "' OR '1'='1", "\\\\'"];
    let str_lit = |r: &mut Rng| lit(V::Str(r.pick_str(&strs).to_string()));
    let atom = |r: &mut Rng| -> T {
        match r.below(8) {
            0 | 1 => id(r.pick_str(&["a", "b", "user_id", "x1"])),
            2 => lit(V::Int(r.range(0, 50))),
            3 => lit(V::Bool(r.chance(1, 2))),
            4 => lit(V::Null),
            5 => lit(V::Dbl(r.range(1, 40) as f64 / 4.0)),
            _ => str_lit(r),
        }
    };
    fn gen(r: &mut Rng, d: u32, atom: &dyn Fn(&mut Rng) -> T) -> T {
        if d == 0 {
            return atom(r);
        }
        match r.below(14) {
            0 | 1 => atom(r),
            2..=4 => bin(r.pick_str(&["+", "-", "*", "/", "%", "<", "<=", "==", "!=", ">=", ">", "&&", "||"]), gen(r, d - 1, atom), gen(r, d - 1, atom)),
            5 => tern(gen(r, d - 1, atom), gen(r, d - 1, atom), gen(r, d - 1, atom)),
            6 => {
                let e = gen(r, d - 1, atom);
                let op = if r.chance(1, 2) { '!' } else { '-' };
                match e {
                    T::Un { op: o2, .. } if o2 == op => e,
                    T::Lit(V::Int(_)) | T::Lit(V::Dbl(_)) if op == '-' => un(op, 1, T::Paren(Box::new(e))),
                    _ => un(op, 1 + r.below(2) as u32, e),
                }
            }
            7 => call(r.pick_str(&["f", "lower", "my_func", "int", "string", "double", "bool", "uint", "timestamp"]), (0..r.below(4)).map(|_| gen(r, d - 1, atom)).collect()),
            8 => mcall(gen(r, d - 1, atom), r.pick_str(&["f", "startsWith", "g"]), (0..r.below(4)).map(|_| gen(r, d - 1, atom)).collect()),
            9 => sel(sel(id(r.pick_str(&["a", "b"])), r.pick_str(&["f", "g"])), r.pick_str(&["h", "f"])),
            10 => idx(gen(r, d - 1, atom), gen(r, d - 1, atom)),
            11 => T::List((0..r.below(4)).map(|_| gen(r, d - 1, atom)).collect()),
            12 => T::Map((0..r.below(3)).map(|_| (atom(r), gen(r, d - 1, atom))).collect()),
            _ => T::Paren(Box::new(gen(r, d - 1, atom))),
        }
    }
    // every string of the alphabet alone, in a comparison, as a function argument, as a map key
    for s in strs {
        let l = lit(V::Str(s.to_string()));
        for t in [l.clone(), bin("==", id("name"), l.clone()), call("f", vec![l.clone(), lit(V::Int(1))]), T::Map(vec![(l.clone(), l.clone())]), T::List(vec![l.clone(), l.clone()]), tern(id("a"), l.clone(), l.clone()), mcall(id("a"), "startsWith", vec![l.clone()])] {
            sql_record(cx, &t);
        }
    }
    // calls alone / as receiver / chained, 0..3 arguments: argument order
    for n in 0..=3usize {
        let args: Vec<T> = (0..n).map(|i| lit(V::Int(i as i64 + 1))).collect();
        sql_record(cx, &call("f", args.clone()));
        sql_record(cx, &mcall(id("x"), "f", args.clone()));
        sql_record(cx, &mcall(mcall(id("x"), "g", args.clone()), "f", args.clone()));
        sql_record(cx, &mcall(sel(id("x"), "y"), "f", args.clone()));
        sql_record(cx, &bin("+", call("f", args.clone()), mcall(id("x"), "f", args.clone())));
    }
    // a type constructor at the head of a member chain: the chain is still there in the SQL
    for cast in ["int", "string", "timestamp", "bytes", "double", "bool"] {
        let c = || call(cast, vec![id("x")]);
        for t in [sel(c(), "name"), mcall(c(), "getFullYear", vec![]), idx(c(), id("i")), mcall(c(), "f", vec![lit(V::Int(1))]), sel(sel(c(), "a"), "b"), bin("+", sel(c(), "name"), lit(V::Int(1)))] {
            sql_record(cx, &t);
        }
    }
    // unsupported constructs
    for t in [T::Match { e: Box::new(id("a")), cases: vec![(Pat::Any, lit(V::Int(1)))] }, T::FStr(vec![Seg::Lit("a".into()), Seg::Expr(id("x"))]), lit(V::Bytes(vec![1])), bin("+", lit(V::Bytes(vec![1])), id("a"))] {
        sql_record(cx, &t);
    }
    // ... in every position of a translatable construct: the whole expression has no translation
    let unsupported: Vec<T> = vec![lit(V::Bytes(vec![120])), T::FStr(vec![Seg::Expr(id("x"))]), T::Match { e: Box::new(id("a")), cases: vec![(Pat::Any, lit(V::Int(1)))] }];
    for u in unsupported.iter() {
        let u = || u.clone();
        let one = || lit(V::Int(1));
        for t in [
            T::List(vec![one(), u(), lit(V::Int(2))]),
            T::List(vec![u()]),
            T::Map(vec![(lit(V::Str("k".into())), u())]),
            T::Map(vec![(u(), one())]),
            call("f", vec![one(), u()]),
            mcall(id("x"), "f", vec![u()]),
            mcall(u(), "f", vec![one()]),
            bin("+", one(), u()),
            bin("||", u(), id("a")),
            tern(id("a"), u(), one()),
            tern(id("a"), one(), u()),
            tern(u(), one(), one()),
            idx(id("a"), u()),
            idx(u(), one()),
            sel(u(), "f"),
            un('!', 1, u()),
            T::Paren(Box::new(u())),
            T::List(vec![T::List(vec![one(), u()])]),
            bin("in", one(), T::List(vec![u()])),
        ] {
            sql_record(cx, &t);
        }
    }
    for i in 0..cx.n {
        let d = 1 + (i % 3) as u32;
        let t = gen(&mut cx.rng, d, &atom);
        sql_record(cx, &t);
    }
}

// ---------------------------------------------------------------------------------------------
// C10: the VM's own bounds checks.  Forward-jumping instruction sequences that no compiler
// emitted - jump distances up to past the end, conditions that are booleans, failures or other
// values - and real programs with one jump distance perturbed, run through the public API.

fn jmpc(when_true: bool, dist: i32) -> rscel::ByteCode {
    // JmpWhen cannot be named outside the crate: take one from compiled code
    let donor = rscel::Program::from_source(if when_true { "a || b" } else { "a && b" }).unwrap();
    let found = donor.bytecode().iter().find_map(|b| match b {
        rscel::ByteCode::JmpCond { when, .. } => Some(rscel::ByteCode::JmpCond { when: when.clone(), dist }),
        _ => None,
    });
    found.unwrap()
}

fn run_code(code: Vec<rscel::ByteCode>) -> J {
    let res = std::panic::catch_unwind(std::panic::AssertUnwindSafe(|| {
        let prog = rscel::Program::new(rscel::ProgramDetails::new(), code.into_iter().collect());
        let mut ctx = rscel::CelContext::new();
        ctx.add_program("main", prog);
        let b = rscel::BindContext::new();
        crate::val::outcome(&ctx.exec("main", &b))
    }));
    match res {
        Ok(o) => o,
        Err(p) => crate::val::crash(&crate::run::panic_msg(p)),
    }
}

pub fn inject(cx: &mut Raw) {
    use rscel::{ByteCode as B, CelValue as C};
    // 1. exhaustive small family: PUSH 7, PUSH cond, JMPC(when, d), then a tail of length k
    let conds: Vec<B> = vec![
        B::Push(C::from(true)),
        B::Push(C::from(false)),
        B::Push(C::from_ident("nobody_bound_this")),
        B::Push(C::from(3i64)),
    ];
    for cond in conds.iter() {
        for when in [true, false] {
            for k in 0..3usize {
                for d in 0..(k as i32 + 3) {
                    let mut code = vec![B::Push(C::from(7i64)), cond.clone(), jmpc(when, d)];
                    for _ in 0..k {
                        code.push(B::Not);
                    }
                    let cj = crate::proj::code_inline(&code);
                    cx.emit(json!({"kind":"inject","code":cj,"out":run_code(code)}));
                }
            }
            for k in 0..3usize {
                for d in 0..(k as i32 + 3) {
                    let mut code = vec![B::Push(C::from(7i64)), B::Jmp(d)];
                    for _ in 0..k {
                        code.push(B::Not);
                    }
                    let cj = crate::proj::code_inline(&code);
                    cx.emit(json!({"kind":"inject","code":cj,"out":run_code(code)}));
                }
            }
        }
    }
    // 2. random forward-jumping sequences
    let n = cx.n;
    for _ in 0..n {
        let len = 2 + cx.rng.below(9) as usize;
        let mut code: Vec<B> = Vec::new();
        for i in 0..len {
            let left = (len - i - 1) as i32;
            let d = if cx.rng.below(3) == 0 { left + 1 + cx.rng.below(3) as i32 } else { cx.rng.below((left + 1) as u64) as i32 };
            let ins = match cx.rng.below(14) {
                0 | 1 => B::Push(C::from(true)),
                2 => B::Push(C::from(false)),
                3 => B::Push(C::from(1i64)),
                4 => B::Push(C::from_ident("nobody_bound_this")),
                5 => B::Pop,
                6 => B::Dup,
                7 => B::Not,
                8 => B::Test,
                9 => B::Or,
                10 => B::Jmp(d),
                11 | 12 => jmpc(cx.rng.below(2) == 0, d),
                _ => B::And,
            };
            code.push(ins);
        }
        let cj = crate::proj::code_inline(&code);
        cx.emit(json!({"kind":"inject","code":cj,"out":run_code(code)}));
    }
    // 3. real programs with one jump made to point past the end
    let g = full_gen();
    for _ in 0..(n / 4) {
        let t = g.expr(&mut cx.rng, 3);
        let src = render(&t, Parens::Min, false, &mut cx.rng);
        let prog = match rscel::Program::from_source(&src) {
            Ok(p) => p,
            Err(_) => continue,
        };
        let mut code: Vec<B> = prog.bytecode().iter().cloned().collect();
        let jumps: Vec<usize> = code.iter().enumerate().filter(|(_, b)| matches!(b, B::Jmp(_) | B::JmpCond { .. })).map(|(i, _)| i).collect();
        if jumps.is_empty() {
            continue;
        }
        let at = jumps[cx.rng.below(jumps.len() as u64) as usize];
        let beyond = (code.len() - at) as i32 + cx.rng.below(3) as i32;
        code[at] = match &code[at] {
            B::Jmp(_) => B::Jmp(beyond),
            B::JmpCond { when, .. } => B::JmpCond { when: when.clone(), dist: beyond },
            other => other.clone(),
        };
        let cj = crate::proj::code_inline(&code);
        let mut o = json!({"kind":"inject","code":cj,"src":src,"perturbed":at});
        // every variable true / false / failing: the perturbed jump is taken under some of them
        let mut outs = Vec::new();
        for v in [Some(true), Some(false), None] {
            let code2 = code.clone();
            let res = std::panic::catch_unwind(std::panic::AssertUnwindSafe(move || {
                let prog = rscel::Program::new(rscel::ProgramDetails::new(), code2.into_iter().collect());
                let mut ctx = rscel::CelContext::new();
                ctx.add_program("main", prog);
                let mut b = rscel::BindContext::new();
                if let Some(x) = v {
                    for n in ["a", "b", "c", "m"] {
                        b.bind_param(n, C::from(x));
                    }
                }
                crate::val::outcome(&ctx.exec("main", &b))
            }));
            outs.push(json!({"all": match v { Some(true) => "true", Some(false) => "false", None => "unbound" },
                             "out": match res { Ok(o) => o, Err(p) => crate::val::crash(&crate::run::panic_msg(p)) }}));
        }
        o["outs"] = J::Array(outs);
        cx.emit(o);
    }
}

// ---------------------------------------------------------------------------------------------
// C09: the clock is read at every execution, however deep the call sits in argument blocks,
// macro bodies, f-strings and untaken-looking branches.  Every clock call of these trees is live,
// so the emitted code must still contain each of them; where the value keeps the clock's
// resolution, two executions a few milliseconds apart must differ.

pub fn clock(cx: &mut Raw) {
    let now = || call("now", vec![]);
    let ts0 = || call("timestamp", vec![]);
    // (wrapper, keeps sub-millisecond resolution)
    let wrap = |k: u64, x: T| -> (T, bool) {
        match k {
            0 => (call("int", vec![x]), false),
            1 => (call("string", vec![x]), true),
            2 => (idx(T::List(vec![x]), lit(V::Int(0))), true),
            3 => (mcall(T::List(vec![lit(V::Int(1))]), "map", vec![id("v"), x]), true),
            4 => (T::FStr(vec![Seg::Lit("t=".into()), Seg::Expr(x)]), true),
            5 => (call("coalesce", vec![x]), true),
            6 => (tern(id("a"), x.clone(), x), true),
            7 => (call("coalesce", vec![id("nobody_bound_this"), x]), true),
            8 => (mcall(T::List(vec![lit(V::Int(0))]), "map", vec![id("v"), bin("+", call("int", vec![x]), id("v"))]), false),
            9 => (T::List(vec![lit(V::Int(1)), x]), true),
            10 => (call("f1", vec![x]), false),
            _ => (T::Paren(Box::new(x)), true),
        }
    };
    let mut emit_one = |cx: &mut Raw, t: &T, precise: bool| {
        let src = render(t, Parens::Min, false, &mut cx.rng);
        let c = compile_record(&src, false, false, true);
        let mut j = c.json;
        j["clock"] = J::from(count_clock(t));
        if let Some(prog) = c.program {
            let mut ctx = rscel::CelContext::new();
            ctx.add_program("main", prog);
            let mut b = rscel::BindContext::new();
            b.bind_param("a", rscel::CelValue::from(true));
            let f1 = |_this: rscel::CelValue, args: Vec<rscel::CelValue>| args.into_iter().next().unwrap_or(rscel::CelValue::from_null());
            b.bind_func("f1", &f1);
            let r1 = crate::val::outcome(&ctx.exec("main", &b));
            std::thread::sleep(std::time::Duration::from_millis(3));
            let r2 = crate::val::outcome(&ctx.exec("main", &b));
            // only where the value came out whole: a failure inside it (string(list), ...) is the same failure twice
            if precise && !r1.to_string().contains("\"t\":\"err\"") {
                j["tick"] = json!([r1, r2]);
            }
        }
        cx.emit(j);
    };
    // every chain of up to three wrappers around now() and around timestamp()
    for base in 0..2 {
        let leaf = || if base == 0 { now() } else { ts0() };
        for k1 in 0..12u64 {
            let (t1, p1) = wrap(k1, leaf());
            emit_one(cx, &t1, p1);
            for k2 in 0..12u64 {
                let (t2, p2) = wrap(k2, t1.clone());
                emit_one(cx, &t2, p1 && p2);
                if base == 0 && (cx.thorough || (k1 + k2) % 3 == 0) {
                    for k3 in 0..12u64 {
                        let (t3, p3) = wrap(k3, t2.clone());
                        emit_one(cx, &t3, p1 && p2 && p3);
                    }
                }
            }
        }
    }
    // random deeper chains, and two clock reads in one program
    for _ in 0..cx.n {
        let depth = 3 + cx.rng.below(4);
        let mut t = now();
        let mut precise = true;
        for _ in 0..depth {
            let (t2, p) = wrap(cx.rng.below(12), t);
            t = t2;
            precise = precise && p;
        }
        if cx.rng.below(3) == 0 {
            t = T::List(vec![t, call("string", vec![now()])]);
        }
        emit_one(cx, &t, precise);
    }
}
