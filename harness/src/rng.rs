//! Small deterministic PRNG (splitmix64 seeding an xorshift*), so the harness needs no `rand`.
#[derive(Clone)]
pub struct Rng(u64);

impl Rng {
    pub fn new(seed: u64) -> Rng {
        let mut z = seed.wrapping_add(0x9E3779B97F4A7C15);
        z = (z ^ (z >> 30)).wrapping_mul(0xBF58476D1CE4E5B9);
        z = (z ^ (z >> 27)).wrapping_mul(0x94D049BB133111EB);
        z ^= z >> 31;
        Rng(if z == 0 { 0x1234_5678_9abc_def1 } else { z })
    }
    pub fn next(&mut self) -> u64 {
        let mut x = self.0;
        x ^= x >> 12;
        x ^= x << 25;
        x ^= x >> 27;
        self.0 = x;
        x.wrapping_mul(0x2545F4914F6CDD1D)
    }
    pub fn below(&mut self, n: u64) -> u64 {
        if n == 0 {
            0
        } else {
            self.next() % n
        }
    }
    pub fn range(&mut self, lo: i64, hi: i64) -> i64 {
        lo + self.below((hi - lo + 1) as u64) as i64
    }
    pub fn chance(&mut self, num: u64, den: u64) -> bool {
        self.below(den) < num
    }
    pub fn pick<'a, T>(&mut self, xs: &'a [T]) -> &'a T {
        &xs[self.below(xs.len() as u64) as usize]
    }
    pub fn pick_str<'a>(&mut self, xs: &[&'a str]) -> &'a str {
        xs[self.below(xs.len() as u64) as usize]
    }
    pub fn fork(&mut self) -> Rng {
        Rng::new(self.next())
    }
}
