//! Structural projections of rscel's public artefacts to the JSON encodings the specification
//! reads: bytecode (blocks of instructions), the syntax tree with spans, tokens with spans.
//! Nothing is evaluated or normalised beyond what DESIGN.md §4.1 lists.
use crate::val::{cps, project, V};
use rscel::*;
use serde_json::{json, Value as J};

// ---------------------------------------------------------------------------------------------
// bytecode

pub fn blocks_of(code: &[ByteCode]) -> Vec<J> {
    let mut blocks: Vec<J> = vec![J::Null];
    fill_block(code, 0, &mut blocks);
    blocks
}

fn fill_block(code: &[ByteCode], slot: usize, blocks: &mut Vec<J>) {
    let mut out = Vec::new();
    for c in code {
        out.push(instr(c, blocks));
    }
    blocks[slot] = J::Array(out);
}

fn operand(v: &CelValue, blocks: &mut Vec<J>) -> J {
    match v {
        CelValue::Ident(n) => json!({"t":"ident","n":n}),
        CelValue::ByteCode(bc) => {
            let slot = blocks.len();
            blocks.push(J::Null);
            let inner: Vec<ByteCode> = bc.iter().cloned().collect();
            fill_block(&inner, slot, blocks);
            json!({"t":"code","b":slot + 1})
        }
        other => project(other).to_json(),
    }
}

pub fn instr(c: &ByteCode, blocks: &mut Vec<J>) -> J {
    match c {
        ByteCode::Push(v) => json!({"op":"PUSH","v":operand(v, blocks)}),
        ByteCode::Jmp(d) => json!({"op":"JMP","d":d}),
        ByteCode::JmpCond { when, dist } => json!({"op":"JMPC","when":format!("{:?}", when) == "True","d":dist}),
        ByteCode::MkList(n) => json!({"op":"MKLIST","n":n}),
        ByteCode::MkDict(n) => json!({"op":"MKDICT","n":n}),
        ByteCode::Call(n) => json!({"op":"CALL","n":n}),
        ByteCode::FmtString(n) => json!({"op":"FMT","n":n}),
        other => {
            let name = format!("{:?}", other);
            json!({"op":name})
        }
    }
}

// ---------------------------------------------------------------------------------------------
// bytecode with nested blocks carried inline (VM.tla's BlockOf accepts both encodings), and
// identifiers with their code points so that map fields can be looked up

pub fn value_inline(v: &CelValue) -> J {
    match v {
        CelValue::Ident(n) => json!({"t":"ident","n":n,"fc":cps(n)}),
        CelValue::ByteCode(bc) => {
            let inner: Vec<ByteCode> = bc.iter().cloned().collect();
            json!({"t":"code","c":code_inline(&inner)})
        }
        other => project(other).to_json(),
    }
}

pub fn code_inline(code: &[ByteCode]) -> J {
    J::Array(
        code.iter()
            .map(|c| match c {
                ByteCode::Push(v) => json!({"op":"PUSH","v":value_inline(v)}),
                other => {
                    let mut sink = Vec::new();
                    instr(other, &mut sink)
                }
            })
            .collect(),
    )
}

// ---------------------------------------------------------------------------------------------
// syntax tree with spans

fn sp(r: SourceRange) -> J {
    json!([r.start().line(), r.start().col(), r.end().line(), r.end().col()])
}

fn with_span(mut j: J, r: SourceRange) -> J {
    j["sp"] = sp(r);
    j
}

pub fn ast_expr(n: &AstNode<Expr>) -> J {
    match n.node() {
        Expr::Unary(inner) => ast_or(inner),
        Expr::Ternary { condition, true_clause, false_clause } => with_span(
            json!({"k":"tern","c":ast_or(condition),"a":ast_or(true_clause),"b":ast_expr(false_clause)}),
            n.range(),
        ),
        Expr::Match { condition, cases } => with_span(
            json!({"k":"match","e":ast_expr(condition),"cases":cases.iter().map(|c| {
                let p = match c.node().pattern.node() {
                    MatchPattern::Any(_) => json!({"pk":"any"}),
                    MatchPattern::Type(t) => json!({"pk":"type","n":format!("{:?}", t.node()).to_lowercase()}),
                    MatchPattern::Cmp { op, or } => json!({"pk":"cmp","op":match op.node() {
                        MatchCmpOp::Eq => "==", MatchCmpOp::Neq => "!=", MatchCmpOp::Gt => ">", MatchCmpOp::Ge => ">=",
                        MatchCmpOp::Lt => "<", MatchCmpOp::Le => "<=" },"v":ast_or(or)}),
                };
                json!({"p":p,"e":ast_expr(&c.node().expr)})
            }).collect::<Vec<_>>()}),
            n.range(),
        ),
    }
}

fn ast_or(n: &AstNode<ConditionalOr>) -> J {
    match n.node() {
        ConditionalOr::Unary(inner) => ast_and(inner),
        ConditionalOr::Binary { lhs, rhs } => with_span(json!({"k":"bin","op":"||","l":ast_or(lhs),"r":ast_and(rhs)}), n.range()),
    }
}

fn ast_and(n: &AstNode<ConditionalAnd>) -> J {
    match n.node() {
        ConditionalAnd::Unary(inner) => ast_rel(inner),
        ConditionalAnd::Binary { lhs, rhs } => with_span(json!({"k":"bin","op":"&&","l":ast_and(lhs),"r":ast_rel(rhs)}), n.range()),
    }
}

fn ast_rel(n: &AstNode<Relation>) -> J {
    match n.node() {
        Relation::Unary(inner) => ast_add(inner),
        Relation::Binary { lhs, op, rhs } => {
            let o = match op {
                Relop::Le => "<=",
                Relop::Lt => "<",
                Relop::Ge => ">=",
                Relop::Gt => ">",
                Relop::Eq => "==",
                Relop::Ne => "!=",
                Relop::In => "in",
            };
            with_span(json!({"k":"bin","op":o,"l":ast_rel(lhs),"r":ast_add(rhs)}), n.range())
        }
    }
}

fn ast_add(n: &AstNode<Addition>) -> J {
    match n.node() {
        Addition::Unary(inner) => ast_mul(inner),
        Addition::Binary { lhs, op, rhs } => {
            let o = match op {
                AddOp::Add => "+",
                AddOp::Sub => "-",
            };
            with_span(json!({"k":"bin","op":o,"l":ast_add(lhs),"r":ast_mul(rhs)}), n.range())
        }
    }
}

fn ast_mul(n: &AstNode<Multiplication>) -> J {
    match n.node() {
        Multiplication::Unary(inner) => ast_unary(inner),
        Multiplication::Binary { lhs, op, rhs } => {
            let o = match op {
                MultOp::Mult => "*",
                MultOp::Div => "/",
                MultOp::Mod => "%",
            };
            with_span(json!({"k":"bin","op":o,"l":ast_mul(lhs),"r":ast_unary(rhs)}), n.range())
        }
    }
}

fn not_count(n: &AstNode<NotList>) -> u32 {
    match n.node() {
        NotList::List { tail } => 1 + not_count(tail),
        NotList::EmptyList => 0,
    }
}

fn neg_count(n: &AstNode<NegList>) -> u32 {
    match n.node() {
        NegList::List { tail } => 1 + neg_count(tail),
        NegList::EmptyList => 0,
    }
}

fn ast_unary(n: &AstNode<Unary>) -> J {
    match n.node() {
        Unary::Member(m) => ast_member(m),
        Unary::NotMember { nots, member } => with_span(json!({"k":"un","op":"!","n":not_count(nots),"e":ast_member(member)}), n.range()),
        Unary::NegMember { negs, member } => with_span(json!({"k":"un","op":"-","n":neg_count(negs),"e":ast_member(member)}), n.range()),
    }
}

fn ast_member(n: &AstNode<Member>) -> J {
    let m = n.node();
    let mut cur = ast_primary(&m.primary);
    let mut range = m.primary.range();
    for mp in m.member.iter() {
        range = range.surrounding(mp.range());
        cur = match mp.node() {
            MemberPrime::MemberAccess { ident } => {
                json!({"k":"sel","e":cur,"f":ident.node().0,"fc":cps(&ident.node().0)})
            }
            MemberPrime::ArrayAccess { access } => json!({"k":"idx","e":cur,"i":ast_expr(access)}),
            MemberPrime::Call { call } => {
                // the parser stores the arguments reversed: order them by where they start
                let mut args: Vec<&AstNode<Expr>> = call.node().exprs.iter().collect();
                args.sort_by_key(|a| (a.start().line(), a.start().col()));
                let argj: Vec<J> = args.iter().map(|a| ast_expr(a)).collect();
                let raw_order: Vec<J> = call.node().exprs.iter().map(|a| sp(a.range())).collect();
                let k = cur.get("k").and_then(|k| k.as_str()).unwrap_or("").to_string();
                if k == "id" {
                    json!({"k":"call","f":cur["n"],"args":argj,"argsp":raw_order})
                } else if k == "sel" {
                    json!({"k":"mcall","r":cur["e"],"f":cur["f"],"fc":cur["fc"],"args":argj,"argsp":raw_order})
                } else {
                    json!({"k":"callx","e":cur,"args":argj})
                }
            }
            MemberPrime::Empty => cur,
        };
        cur["sp"] = sp(range);
    }
    cur
}

fn ast_primary(n: &AstNode<Primary>) -> J {
    let j = match n.node() {
        Primary::Type => json!({"k":"type"}),
        Primary::Ident(i) => json!({"k":"id","n":i.0}),
        Primary::Parens(e) => json!({"k":"paren","e":ast_expr(e)}),
        Primary::ListConstruction(l) => json!({"k":"list","es":l.node().exprs.iter().map(ast_expr).collect::<Vec<_>>()}),
        Primary::ObjectInit(o) => json!({"k":"map","kv":o.node().inits.iter().map(|i| json!([ast_expr(&i.node().key), ast_expr(&i.node().value)])).collect::<Vec<_>>()}),
        Primary::Literal(l) => match l {
            LiteralsAndKeywords::NullLit => json!({"k":"lit","v":V::Null.to_json()}),
            LiteralsAndKeywords::IntegerLit(i) => json!({"k":"lit","v":V::Int(*i).to_json()}),
            LiteralsAndKeywords::UnsignedLit(u) => json!({"k":"lit","v":V::Uint(*u).to_json()}),
            LiteralsAndKeywords::FloatingLit(f) => json!({"k":"lit","v":V::Dbl(*f).to_json()}),
            LiteralsAndKeywords::StringLit(s) => json!({"k":"lit","v":V::Str(s.clone()).to_json()}),
            LiteralsAndKeywords::ByteStringLit(b) => json!({"k":"lit","v":V::Bytes(b.clone()).to_json()}),
            LiteralsAndKeywords::BooleanLit(b) => json!({"k":"lit","v":V::Bool(*b).to_json()}),
            LiteralsAndKeywords::FStringList(segs) => json!({"k":"fstr","segs":segs.iter().map(|s| match s {
                FStringSegment::Lit(s) => json!({"s":cps(s)}),
                FStringSegment::Expr(e) => json!({"x":cps(e)}),
            }).collect::<Vec<_>>()}),
            other => json!({"k":"kw","w":format!("{:?}", other)}),
        },
    };
    with_span(j, n.range())
}

// ---------------------------------------------------------------------------------------------
// tokens

pub fn token_json(t: &TokenWithLoc) -> J {
    let (k, v): (&str, J) = match &t.token {
        Token::IntLit(u) => ("int", crate::val::big(false, *u as u128)),
        Token::UIntLit(u) => ("uint", crate::val::big(false, *u as u128)),
        Token::FloatLit(f) => ("float", crate::val::dbl_json(*f)),
        Token::StringLit(s) => ("str", cps(s)),
        Token::ByteStringLit(b) => ("bytes", json!(b.clone().into_vec())),
        Token::FStringLit(segs) => (
            "fstr",
            J::Array(
                segs.iter()
                    .map(|s| match s {
                        FStringSegment::Lit(s) => json!({"s":cps(s)}),
                        // the embedded text and its own tokens ("xbad" when it does not tokenize): the grammar decides
                        // whether that text is exactly one expression
                        FStringSegment::Expr(e) => {
                            let (toks, err) = tokenize(e);
                            if err.is_some() {
                                json!({"x":cps(e),"xbad":true})
                            } else {
                                json!({"x":cps(e),"xt":toks})
                            }
                        }
                    })
                    .collect(),
            ),
        ),
        Token::BoolLit(b) => ("bool", J::from(*b)),
        Token::Ident(s) => ("ident", J::from(s.clone())),
        other => ("p", J::from(format!("{:?}", other))),
    };
    json!({"k":k,"v":v,"sp":sp(t.loc)})
}

/// All tokens of a source text, or the syntax error the tokenizer reports.
pub fn tokenize(src: &str) -> (Vec<J>, Option<J>) {
    let mut tk = StringTokenizer::with_input(src);
    let mut out = Vec::new();
    loop {
        match Tokenizer::next(&mut tk) {
            Ok(Some(t)) => out.push(token_json(&t)),
            Ok(None) => return (out, None),
            Err(e) => return (out, Some(json!({"line": e.loc().line(), "col": e.loc().col()}))),
        }
        if out.len() > 100000 {
            return (out, None);
        }
    }
}

// ---------------------------------------------------------------------------------------------
// one compilation, everything observable about it

pub struct Compiled {
    pub json: J,
    pub program: Option<Program>,
}

pub fn compile_record(src: &str, want_tokens: bool, want_ast: bool, want_code: bool) -> Compiled {
    let res = std::panic::catch_unwind(|| Program::from_source(src));
    let mut j = json!({"src": cps(src), "text": src});
    match res {
        Err(p) => {
            j["compile"] = crate::val::crash(&crate::run::panic_msg(p));
            Compiled { json: j, program: None }
        }
        Ok(Err(e)) => {
            let mut o = crate::val::err_outcome(&e);
            if let CelError::Syntax(se) = &e {
                o["line"] = J::from(se.loc().line());
                o["col"] = J::from(se.loc().col());
            }
            j["compile"] = o;
            if want_tokens {
                let (toks, terr) = tokenize(src);
                j["tokens"] = J::Array(toks);
                if let Some(te) = terr {
                    j["tokerr"] = te;
                }
            }
            Compiled { json: j, program: None }
        }
        Ok(Ok(prog)) => {
            j["compile"] = json!({"o":"ok"});
            let mut params: Vec<String> = prog.params().iter().map(|s| s.to_string()).collect();
            params.sort();
            j["params"] = json!(params);
            j["source_ok"] = J::from(prog.source() == Some(src));
            if want_tokens {
                let (toks, terr) = tokenize(src);
                j["tokens"] = J::Array(toks);
                if let Some(te) = terr {
                    j["tokerr"] = te;
                }
            }
            if want_ast {
                if let Some(ast) = prog.ast() {
                    j["ast"] = ast_expr(ast);
                    j["rootsp"] = sp(ast.range());
                }
            }
            if want_code {
                let code: Vec<ByteCode> = prog.bytecode().iter().cloned().collect();
                j["blocks"] = J::Array(blocks_of(&code));
            }
            Compiled { json: j, program: Some(prog) }
        }
    }
}
