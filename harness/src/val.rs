//! The value encoding shared with the TLA+ specification (DESIGN.md §3.3) and the
//! projection between it and rscel's `CelValue`.  Structural only: nothing is evaluated here.
use rscel::{CelError, CelResult, CelValue};
use serde_json::{json, Map, Value as J};
use std::collections::HashMap;

#[derive(Clone, Debug, PartialEq)]
pub enum V {
    Int(i64),
    Uint(u64),
    Dbl(f64),
    Bool(bool),
    Str(String),
    Bytes(Vec<u8>),
    List(Vec<V>),
    Map(Vec<(String, V)>), // sorted by key, keys distinct
    Null,
    Type(String),
    Ts(i128),  // nanoseconds since the epoch
    Dur(i128), // nanoseconds
    Err(String),
    Opaque(String),
}

pub fn big(neg: bool, mut mag: u128) -> J {
    let mut limbs = Vec::new();
    while mag > 0 {
        limbs.push(J::from((mag & 0x7fff) as u64));
        mag >>= 15;
    }
    let s = if limbs.is_empty() {
        0
    } else if neg {
        -1
    } else {
        1
    };
    json!({"s": s, "m": limbs})
}

pub fn big_i(n: i128) -> J {
    big(n < 0, n.unsigned_abs())
}

pub fn mag(mut m: u128) -> J {
    let mut limbs = Vec::new();
    while m > 0 {
        limbs.push(J::from((m & 0x7fff) as u64));
        m >>= 15;
    }
    J::Array(limbs)
}

pub fn unbig(j: &J) -> Option<i128> {
    let s = j.get("s")?.as_i64()?;
    let mut mag: i128 = 0;
    for (i, l) in j.get("m")?.as_array()?.iter().enumerate() {
        if i >= 8 {
            return None;
        }
        mag |= (l.as_u64()? as i128) << (15 * i);
    }
    Some(if s < 0 { -mag } else { mag })
}

pub fn unmag(j: &J) -> Option<u128> {
    let mut mag: u128 = 0;
    for (i, l) in j.as_array()?.iter().enumerate() {
        if i >= 8 {
            return None;
        }
        mag |= (l.as_u64()? as u128) << (15 * i);
    }
    Some(mag)
}

pub fn cps(s: &str) -> J {
    J::Array(s.chars().map(|c| J::from(c as u32)).collect())
}

pub fn uncps(j: &J) -> Option<String> {
    j.as_array()?
        .iter()
        .map(|c| char::from_u32(c.as_u64()? as u32))
        .collect()
}

pub fn dbl_json(f: f64) -> J {
    let bits = f.to_bits();
    let neg = bits >> 63 == 1;
    let e = ((bits >> 52) & 0x7ff) as u64;
    let m = bits & ((1u64 << 52) - 1);
    if e == 2047 && m != 0 {
        // one NaN
        return json!({"t":"dbl","neg":false,"e":2047,"m":[1]});
    }
    json!({"t":"dbl","neg":neg,"e":e,"m":mag(m as u128)})
}

pub fn undbl(j: &J) -> Option<f64> {
    let neg = j.get("neg")?.as_bool()?;
    let e = j.get("e")?.as_u64()?;
    let m = unmag(j.get("m")?)? as u64;
    if e == 2047 && m != 0 {
        return Some(f64::NAN);
    }
    Some(f64::from_bits(((neg as u64) << 63) | (e << 52) | m))
}

impl V {
    pub fn to_json(&self) -> J {
        match self {
            V::Int(i) => json!({"t":"int","n":big_i(*i as i128)}),
            V::Uint(u) => json!({"t":"uint","n":big(false, *u as u128)}),
            V::Dbl(f) => dbl_json(*f),
            V::Bool(b) => json!({"t":"bool","b":b}),
            V::Str(s) => json!({"t":"str","s":cps(s)}),
            V::Bytes(b) => json!({"t":"bytes","s":b}),
            V::List(l) => json!({"t":"list","s":l.iter().map(|x| x.to_json()).collect::<Vec<_>>()}),
            V::Map(kv) => {
                json!({"t":"map","kv":kv.iter().map(|(k,v)| json!([cps(k), v.to_json()])).collect::<Vec<_>>()})
            }
            V::Null => json!({"t":"null"}),
            V::Type(n) => json!({"t":"type","name":n}),
            V::Ts(ns) => json!({"t":"ts","ns":big_i(*ns)}),
            V::Dur(ns) => json!({"t":"dur","ns":big_i(*ns)}),
            V::Err(c) => json!({"t":"err","c":c}),
            V::Opaque(w) => json!({"t":"opaque","w":w}),
        }
    }

    pub fn from_json(j: &J) -> Option<V> {
        let t = j.get("t")?.as_str()?;
        Some(match t {
            "int" => V::Int(i64::try_from(unbig(j.get("n")?)?).ok()?),
            "uint" => V::Uint(u64::try_from(unbig(j.get("n")?)?).ok()?),
            "dbl" => V::Dbl(undbl(j)?),
            "bool" => V::Bool(j.get("b")?.as_bool()?),
            "str" => V::Str(uncps(j.get("s")?)?),
            "bytes" => V::Bytes(
                j.get("s")?
                    .as_array()?
                    .iter()
                    .map(|b| b.as_u64().map(|b| b as u8))
                    .collect::<Option<Vec<u8>>>()?,
            ),
            "list" => V::List(
                j.get("s")?
                    .as_array()?
                    .iter()
                    .map(V::from_json)
                    .collect::<Option<Vec<V>>>()?,
            ),
            "map" => {
                let mut kv = Vec::new();
                for e in j.get("kv")?.as_array()? {
                    let e = e.as_array()?;
                    kv.push((uncps(&e[0])?, V::from_json(&e[1])?));
                }
                kv.sort_by(|a, b| a.0.cmp(&b.0));
                V::Map(kv)
            }
            "null" => V::Null,
            "type" => V::Type(j.get("name")?.as_str()?.to_string()),
            "ts" => V::Ts(unbig(j.get("ns")?)?),
            "dur" => V::Dur(unbig(j.get("ns")?)?),
            "err" => V::Err(j.get("c")?.as_str()?.to_string()),
            _ => return None,
        })
    }

    /// Values that can be handed to rscel through `bind_param`.
    pub fn to_cel(&self) -> Option<CelValue> {
        Some(match self {
            V::Int(i) => CelValue::from_int(*i),
            V::Uint(u) => CelValue::from_uint(*u),
            V::Dbl(f) => CelValue::from_float(*f),
            V::Bool(b) => CelValue::from_bool(*b),
            V::Str(s) => CelValue::from_string(s.clone()),
            V::Bytes(b) => CelValue::from_bytes(b.clone()),
            V::List(l) => CelValue::from_list(l.iter().map(|x| x.to_cel()).collect::<Option<Vec<_>>>()?),
            V::Map(kv) => {
                let mut m = HashMap::new();
                for (k, v) in kv {
                    m.insert(k.clone(), v.to_cel()?);
                }
                CelValue::from_map(m)
            }
            V::Null => CelValue::from_null(),
            V::Type(n) => CelValue::from_type(n),
            V::Ts(ns) => {
                let secs = ns.div_euclid(1_000_000_000);
                let sub = ns.rem_euclid(1_000_000_000) as u32;
                CelValue::from_timestamp(chrono::DateTime::from_timestamp(i64::try_from(secs).ok()?, sub)?)
            }
            V::Dur(ns) => {
                let secs = ns.div_euclid(1_000_000_000);
                let sub = ns.rem_euclid(1_000_000_000) as u32;
                CelValue::from_duration(chrono::Duration::new(i64::try_from(secs).ok()?, sub)?)
            }
            V::Err(_) | V::Opaque(_) => return None,
        })
    }

    /// As a serde_json value for `bind_params_from_json_obj` (only JSON-expressible values).
    pub fn to_plain_json(&self) -> Option<J> {
        Some(match self {
            V::Int(i) => J::from(*i),
            // rscel reads a JSON number as int when it fits: only larger uints survive the trip
            V::Uint(u) => {
                if *u > i64::MAX as u64 {
                    J::from(*u)
                } else {
                    return None;
                }
            }
            V::Dbl(f) => {
                if f.is_finite() {
                    J::from(*f)
                } else {
                    return None;
                }
            }
            V::Bool(b) => J::from(*b),
            V::Str(s) => J::from(s.clone()),
            V::List(l) => J::Array(l.iter().map(|x| x.to_plain_json()).collect::<Option<Vec<_>>>()?),
            V::Map(kv) => {
                let mut m = Map::new();
                for (k, v) in kv {
                    m.insert(k.clone(), v.to_plain_json()?);
                }
                J::Object(m)
            }
            V::Null => J::Null,
            _ => return None,
        })
    }
}

pub fn err_class(e: &CelError) -> &'static str {
    match e {
        CelError::Binding { .. } | CelError::Attribute { .. } => "absent",
        CelError::Syntax(_) => "syntax",
        _ => "other",
    }
}

pub fn project(v: &CelValue) -> V {
    match v {
        CelValue::Int(i) => V::Int(*i),
        CelValue::UInt(u) => V::Uint(*u),
        CelValue::Float(f) => V::Dbl(*f),
        CelValue::Bool(b) => V::Bool(*b),
        CelValue::String(s) => V::Str(s.clone()),
        CelValue::Bytes(b) => V::Bytes(b.clone().into_vec()),
        CelValue::List(l) => V::List(l.iter().map(project).collect()),
        CelValue::Map(m) => {
            let mut kv: Vec<(String, V)> = m.iter().map(|(k, v)| (k.clone(), project(v))).collect();
            kv.sort_by(|a, b| a.0.cmp(&b.0));
            V::Map(kv)
        }
        CelValue::Null => V::Null,
        CelValue::Type(t) => V::Type(t.clone()),
        CelValue::TimeStamp(ts) => {
            V::Ts(ts.timestamp() as i128 * 1_000_000_000 + ts.timestamp_subsec_nanos() as i128)
        }
        CelValue::Duration(d) => {
            V::Dur(d.num_seconds() as i128 * 1_000_000_000 + d.subsec_nanos() as i128)
        }
        CelValue::Err(e) => V::Err(err_class(e).to_string()),
        CelValue::Ident(n) => V::Opaque(format!("ident:{}", n)),
        CelValue::ByteCode(_) => V::Opaque("bytecode".to_string()),
        _ => V::Opaque("other".to_string()),
    }
}

/// Observed outcome of an API call: {"o":"ok","v":V} | {"o":"err","c":class,"variant":..} | {"o":"crash"}.
pub fn outcome(r: &CelResult<CelValue>) -> J {
    match r {
        Ok(v) => json!({"o":"ok","v":project(v).to_json()}),
        Err(e) => err_outcome(e),
    }
}

pub fn err_outcome(e: &CelError) -> J {
    let mut o = json!({"o":"err","c":err_class(e),"variant":e.type_string()});
    if let CelError::Syntax(se) = e {
        let s = format!("{}", se);
        o["msg"] = J::from(s);
    }
    o
}

pub fn crash(what: &str) -> J {
    json!({"o":"crash","what":what})
}
