//! Case generators for `vh drive <topic>`: exhaustive boundary grids and seeded random cases.
//! Generators only build inputs; expected outcomes come from the specification (TLC).
use crate::pools::*;
use crate::rng::Rng;
use crate::run::Case;
use crate::tree::*;
use crate::val::V;

pub struct Ctx<'a> {
    pub rng: Rng,
    pub thorough: bool,
    pub n: usize,
    pub emit: &'a mut dyn FnMut(Case),
    pub count: usize,
    pub prefix: String,
}

impl<'a> Ctx<'a> {
    pub fn case(&mut self, tree: T) -> Case {
        self.count += 1;
        Case::new(format!("{}-{:06}", self.prefix, self.count), tree)
    }
    pub fn out(&mut self, c: Case) {
        (self.emit)(c)
    }
}

fn forms(fs: &[&str]) -> Vec<String> {
    fs.iter().map(|s| s.to_string()).collect()
}

const ARITH: &[&str] = &["+", "-", "*", "/", "%"];
const RELS: &[&str] = &["<", "<=", "==", "!=", ">=", ">"];

fn binop_case(cx: &mut Ctx, op: &str, a: &V, b: &V, fs: &[&str]) {
    let mut c = cx.case(bin(op, id("x"), id("y")));
    c.bind.insert("x".into(), a.clone());
    c.bind.insert("y".into(), b.clone());
    c.forms = forms(fs);
    cx.out(c);
}

/// C03: numeric operators on the boundary grid (all type pairs) and random 64-bit operands.
pub fn arith(cx: &mut Ctx) {
    let grid = grid_numeric();
    let others = non_numeric();
    // full grid in the thorough tier; in the quick tier a seeded quarter of the numeric pairs,
    // and always every pair from the small boundary pool
    let small = small_numeric();
    for op in ARITH {
        for a in small.iter() {
            for b in small.iter() {
                binop_case(cx, op, a, b, &["bound", "lit", "mixed"]);
            }
        }
    }
    for op in ARITH {
        for a in grid.iter() {
            for b in grid.iter() {
                if cx.thorough || cx.rng.below(16) == 0 {
                    binop_case(cx, op, a, b, &["bound", "lit"]);
                }
            }
        }
    }
    // non-numeric against everything (concatenation, time arithmetic, errors)
    let mut pool = small.clone();
    pool.extend(others.clone());
    pool.extend(time_edges());
    for op in ARITH {
        for a in others.iter().chain(time_edges().iter()) {
            for b in pool.iter() {
                binop_case(cx, op, a, b, &["bound", "lit"]);
                if a != b {
                    binop_case(cx, op, b, a, &["bound"]);
                }
            }
        }
    }
    // unary minus on everything
    let mut allv = grid.clone();
    allv.extend(others);
    for a in allv.iter() {
        for n in 1..=2u32 {
            let mut c = cx.case(un('-', n, id("x")));
            c.bind.insert("x".into(), a.clone());
            c.forms = forms(&["bound", "lit"]);
            cx.out(c);
        }
    }
    // random operands
    for _ in 0..cx.n {
        let op = *cx.rng.pick(ARITH);
        let a = rand_numeric(&mut cx.rng);
        let b = if cx.rng.chance(1, 8) {
            a.clone()
        } else {
            rand_numeric(&mut cx.rng)
        };
        binop_case(cx, op, &a, &b, &["bound", "lit"]);
    }
    // small expression trees of arithmetic (widening chains)
    for _ in 0..cx.n / 4 {
        let ops: Vec<&str> = (0..2).map(|_| *cx.rng.pick(ARITH)).collect();
        let t = bin(ops[1], bin(ops[0], id("x"), id("y")), id("z"));
        let mut c = cx.case(t);
        c.bind.insert("x".into(), rand_numeric(&mut cx.rng));
        c.bind.insert("y".into(), rand_numeric(&mut cx.rng));
        c.bind.insert("z".into(), rand_numeric(&mut cx.rng));
        c.forms = forms(&["bound", "lit", "mixed"]);
        cx.out(c);
    }
}

/// C04: all six relations on pairs; sort/min/max on small lists.
pub fn order(cx: &mut Ctx) {
    let mut pool = small_numeric();
    pool.extend(non_numeric());
    pool.extend(time_edges());
    pool.extend([V::Str("b".into()), V::Str("aé".into()), V::Bytes(vec![97, 98]), V::List(vec![V::Int(1)]), V::List(vec![V::Uint(1)])]);
    let grid = grid_numeric();
    let mut pairs: Vec<(V, V)> = Vec::new();
    for a in pool.iter() {
        for b in pool.iter() {
            pairs.push((a.clone(), b.clone()));
        }
    }
    for a in grid.iter() {
        for b in grid.iter() {
            if cx.thorough || cx.rng.below(12) == 0 {
                pairs.push((a.clone(), b.clone()));
            }
        }
    }
    for _ in 0..cx.n {
        let a = rand_value(&mut cx.rng, 1);
        let b = match cx.rng.below(4) {
            0 => a.clone(),
            1 => rand_numeric(&mut cx.rng),
            _ => rand_value(&mut cx.rng, 1),
        };
        let a = if cx.rng.chance(1, 2) { rand_numeric(&mut cx.rng) } else { a };
        pairs.push((a, b));
    }
    for (a, b) in pairs {
        // all six results in one program: [x<y, x<=y, x==y, x!=y, x>=y, x>y] would hide failures,
        // so each relation is its own case
        for op in RELS {
            binop_case(cx, op, &a, &b, &["bound", "lit"]);
        }
    }
    // sort / min / max
    let elems: Vec<V> = vec![V::Int(1), V::Int(-3), V::Uint(1), V::Uint(7), V::Dbl(1.0), V::Dbl(2.5), V::Dbl(-0.0), V::Dbl(0.0), V::Int(0), V::Str("a".into()), V::Str("B".into()), V::Str("é".into()), V::Bool(true), V::Bool(false), V::Dbl(f64::NAN), V::Ts(0), V::Ts(5), V::Dur(3), V::Dur(-3), V::Int(i64::MAX), V::Uint(u64::MAX)];
    let lists = if cx.thorough { 4000 } else { 600 } + cx.n / 4;
    for _ in 0..lists {
        let len = cx.rng.below(6) as usize;
        let family = cx.rng.below(5);
        let l: Vec<V> = (0..len)
            .map(|_| match family {
                0 => V::Int(cx.rng.range(-3, 3)),
                1 => V::Str(rand_string(&mut cx.rng, 2)),
                2 => match cx.rng.below(3) {
                    0 => V::Int(cx.rng.range(-2, 2)),
                    1 => V::Uint(cx.rng.below(3)),
                    _ => V::Dbl(cx.rng.range(-4, 4) as f64 / 2.0),
                },
                3 => V::Dbl(rand_f64(&mut cx.rng)),
                _ => cx.rng.pick(&elems).clone(),
            })
            .collect();
        // every fifth list: whole numbers beyond 2^53 and around 2^63 that a double cannot tell apart
        let l: Vec<V> = if cx.rng.below(5) == 0 {
            let near: [V; 10] = [V::Int((1 << 53) + 1), V::Int(1 << 53), V::Int((1 << 53) + 2), V::Uint((1 << 53) + 1), V::Dbl(9007199254740992.0),
                                 V::Int(i64::MAX), V::Int(i64::MAX - 1), V::Uint(1 << 63), V::Uint((1 << 63) + 1), V::Uint(u64::MAX - 1)];
            (0..(2 + cx.rng.below(4))).map(|_| cx.rng.pick(&near).clone()).collect()
        } else {
            l
        };
        let mut c = cx.case(mcall(id("l"), "sort", vec![]));
        c.bind.insert("l".into(), V::List(l.clone()));
        c.forms = forms(&["bound", "lit"]);
        cx.out(c);
        for f in ["min", "max"] {
            let args: Vec<T> = (0..l.len()).map(|i| id(&format!("a{}", i))).collect();
            let mut c = cx.case(call(f, args));
            for (i, v) in l.iter().enumerate() {
                c.bind.insert(format!("a{}", i), v.clone());
            }
            c.forms = forms(&["bound", "lit"]);
            cx.out(c);
        }
    }
}

pub fn run_topic(topic: &str, cx: &mut Ctx) -> bool {
    match topic {
        "arith" => arith(cx),
        "order" => order(cx),
        "lazy" => lazy(cx),
        "coll" => coll(cx),
        "macros" => macros(cx),
        "hascoal" => hascoal(cx),
        "fold" => fold(cx),
        "refs" => refs(cx),
        "cycles" => cycles(cx),
        "fstrbrace" => fstrbrace(cx),
        "parse_eval" => parse_eval(cx),
        "total" => total(cx),
        "conv" => conv(cx),
        "strings" => strings(cx),
        "time" => time(cx),
        _ => return false,
    }
    true
}

// ---------------------------------------------------------------------------------------------
// C05: laziness, absorption, truthiness

#[derive(Clone, Copy, PartialEq, Debug)]
pub enum Cls {
    T,      // true
    F,      // false
    Truthy, // truthy non-bool
    Falsy,  // falsy non-bool
    ErrO,   // fails (other)
    ErrA,   // fails (absent)
    HardArg, // a call whose argument fails
    ProgErr, // a stored program that fails
    ProgT,  // a stored program that is truthy
    FStrErr, // an f-string whose segment fails
    MapKey, // a map literal whose key is not a string (built at run time)
    MethodRef, // a method selected but not called
    NoSuchArg, // a call whose argument calls a name that is not callable
    NoSuchProg, // a stored program that calls a name that is not callable
    NoSuchBody, // a macro whose body calls a name that is not callable
}
pub const CLASSES: &[Cls] = &[Cls::T, Cls::F, Cls::Truthy, Cls::Falsy, Cls::ErrO, Cls::ErrA, Cls::HardArg, Cls::ProgErr, Cls::ProgT, Cls::FStrErr, Cls::MapKey, Cls::MethodRef, Cls::NoSuchArg, Cls::NoSuchProg, Cls::NoSuchBody];

fn cls_value(c: Cls, r: &mut Rng) -> Option<V> {
    Some(match c {
        Cls::T => V::Bool(true),
        Cls::F => V::Bool(false),
        Cls::Truthy => match r.below(6) {
            0 => V::Int(1),
            1 => V::Str("a".into()),
            2 => V::Dbl(f64::NAN),
            3 => V::List(vec![V::Int(0)]),
            4 => V::Uint(3),
            _ => V::Dur(0),
        },
        Cls::Falsy => match r.below(7) {
            0 => V::Int(0),
            1 => V::Str(String::new()),
            2 => V::Null,
            3 => V::List(vec![]),
            4 => V::Dbl(-0.0),
            5 => V::Map(vec![]),
            _ => V::Bytes(vec![]),
        },
        _ => return None,
    })
}

/// Tree shapes over `n` atom slots: returns trees whose atoms are Id("@k").
fn logic_shapes(ops: usize) -> Vec<(T, usize)> {
    // (tree, number of atoms); atoms are numbered left to right afterwards
    fn build(ops: usize) -> Vec<T> {
        if ops == 0 {
            return vec![id("@")];
        }
        let mut out = Vec::new();
        // unary !
        for e in build(ops - 1) {
            if !matches!(e, T::Un { .. }) {
                out.push(un('!', 1, e));
            }
        }
        for l in 0..ops {
            let r = ops - 1 - l;
            for a in build(l) {
                for b in build(r) {
                    out.push(bin("||", a.clone(), b.clone()));
                    out.push(bin("&&", a.clone(), b.clone()));
                }
            }
        }
        for a in 0..ops {
            for b in 0..(ops - a) {
                let c = ops - 1 - a - b;
                for x in build(a) {
                    for y in build(b) {
                        for z in build(c) {
                            out.push(tern(x.clone(), y.clone(), z.clone()));
                        }
                    }
                }
            }
        }
        out
    }
    fn number(t: &T, k: &mut usize) -> T {
        match t {
            T::Id(n) if n == "@" => {
                *k += 1;
                id(&format!("@{}", *k))
            }
            T::Un { op, n, e } => un(*op, *n, number(e, k)),
            T::Bin { op, l, r } => {
                let l2 = number(l, k);
                let r2 = number(r, k);
                bin(op, l2, r2)
            }
            T::Tern { c, a, b } => {
                let c2 = number(c, k);
                let a2 = number(a, k);
                let b2 = number(b, k);
                tern(c2, a2, b2)
            }
            o => o.clone(),
        }
    }
    build(ops)
        .into_iter()
        .map(|t| {
            let mut k = 0;
            let t2 = number(&t, &mut k);
            (t2, k)
        })
        .collect()
}

fn fill_atoms(t: &T, f: &dyn Fn(usize) -> T) -> T {
    t.subst(&|n: &str| if let Some(k) = n.strip_prefix('@') { Some(f(k.parse().unwrap())) } else { None })
}

fn logic_case(cx: &mut Ctx, shape: &T, classes: &[Cls], as_calls: bool) {
    let mut rng = cx.rng.fork();
    if as_calls {
        let t = fill_atoms(shape, &|k| match classes[k - 1] {
            Cls::HardArg => call(&format!("c{}", k), vec![bin("/", lit(V::Int(1)), id("zero"))]),
            Cls::ProgErr | Cls::ProgT | Cls::NoSuchProg => id(&format!("p{}", k)),
            Cls::NoSuchArg => call(&format!("c{}", k), vec![call("nosuchfn", vec![lit(V::Int(1))])]),
            Cls::NoSuchBody => mcall(T::List(vec![lit(V::Int(1))]), "exists", vec![id("e"), call("nosuchfn", vec![id("e")])]),
            Cls::FStrErr => T::FStr(vec![Seg::Lit("x".into()), Seg::Expr(call(&format!("c{}", k), vec![]))]),
            Cls::MapKey => T::Map(vec![(call(&format!("c{}", k), vec![]), lit(V::Int(1)))]),
            Cls::MethodRef => sel(call(&format!("c{}", k), vec![]), "size"),
            _ => call(&format!("c{}", k), vec![]),
        });
        let mut c = cx.case(t);
        c.bind.insert("zero".into(), V::Int(0));
        for (i, cl) in classes.iter().enumerate() {
            match cl {
                Cls::ProgErr => {
                    c.progs.insert(format!("p{}", i + 1), bin("%", call(&format!("c{}", i + 1), vec![]), id("zero")));
                }
                Cls::ProgT => {
                    c.progs.insert(format!("p{}", i + 1), call(&format!("c{}", i + 1), vec![]));
                }
                Cls::NoSuchProg => {
                    c.progs.insert(format!("p{}", i + 1), call("nosuchfn", vec![lit(V::Int(1))]));
                }
                _ => {}
            }
            let spec = match cl {
                Cls::FStrErr => serde_json::json!({"o":"err","c": if rng.chance(1, 2) {"absent"} else {"other"}}),
                Cls::MapKey => serde_json::json!({"o":"ok","v":V::Int(1).to_json()}),
                Cls::MethodRef => serde_json::json!({"o":"ok","v":V::List(vec![V::Int(1)]).to_json()}),
                _ => match cls_value(if matches!(cl, Cls::HardArg | Cls::ProgErr | Cls::ProgT | Cls::NoSuchArg | Cls::NoSuchProg | Cls::NoSuchBody) { Cls::Truthy } else { *cl }, &mut rng) {
                    Some(v) => serde_json::json!({"o":"ok","v":v.to_json()}),
                    None => serde_json::json!({"o":"err","c": if *cl == Cls::ErrA {"absent"} else {"other"}}),
                },
            };
            c.funcs.insert(format!("c{}", i + 1), spec);
        }
        c.forms = forms(&["bound"]);
        cx.out(c);
    } else {
        // atoms as variables: failing atoms are 1/0-style expressions or unbound names
        let vals: Vec<Option<V>> = classes.iter().map(|cl| cls_value(*cl, &mut rng)).collect();
        let t = fill_atoms(shape, &|k| match classes[k - 1] {
            Cls::ErrO | Cls::ProgErr => bin("/", id(&format!("v{}", k)), lit(V::Int(0))),
            Cls::HardArg => call("size", vec![id(&format!("v{}", k))]),
            Cls::NoSuchArg | Cls::NoSuchProg => call("size", vec![call("nosuchfn", vec![id(&format!("v{}", k))])]),
            Cls::NoSuchBody => mcall(T::List(vec![id(&format!("v{}", k))]), "all", vec![id("e"), call("nosuchfn", vec![id("e")])]),
            Cls::FStrErr => T::FStr(vec![Seg::Lit("x".into()), Seg::Expr(bin("/", id(&format!("v{}", k)), lit(V::Int(0))))]),
            Cls::MapKey => T::Map(vec![(id(&format!("v{}", k)), lit(V::Int(1)))]),
            Cls::MethodRef => sel(id(&format!("v{}", k)), "size"),
            _ => id(&format!("v{}", k)),
        });
        let mut c = cx.case(t);
        for (i, v) in vals.iter().enumerate() {
            match (classes[i], v) {
                (_, Some(v)) => {
                    c.bind.insert(format!("v{}", i + 1), v.clone());
                }
                (Cls::ErrO, None) | (Cls::ProgErr, None) | (Cls::FStrErr, None) | (Cls::MapKey, None) | (Cls::NoSuchArg, None) | (Cls::NoSuchProg, None) | (Cls::NoSuchBody, None) => {
                    c.bind.insert(format!("v{}", i + 1), V::Int(1));
                }
                (Cls::MethodRef, None) => {
                    c.bind.insert(format!("v{}", i + 1), V::List(vec![V::Int(1)]));
                }
                (Cls::ProgT, None) => {
                    c.bind.insert(format!("v{}", i + 1), V::Int(2));
                }
                _ => {} // ErrA: unbound
            }
        }
        c.forms = forms(&["bound", "lit", "mixed"]);
        cx.out(c);
    }
}

pub fn lazy(cx: &mut Ctx) {
    // all trees with <= 2 operators over the six value classes, and all trees with <= 1 operator
    // over all nine (hard-failing arguments and stored programs too): exhaustive
    for ops in 0..=2usize {
        for (shape, k) in logic_shapes(ops) {
            let base = if ops <= 1 { CLASSES.len() } else { 6 };
            let total = base.pow(k as u32);
            for code in 0..total {
                let mut cls = Vec::new();
                let mut c = code;
                for _ in 0..k {
                    cls.push(CLASSES[c % base]);
                    c /= base;
                }
                logic_case(cx, &shape, &cls, true);
                if ops < 2 || cx.thorough || cx.rng.below(3) == 0 {
                    logic_case(cx, &shape, &cls, false);
                }
            }
        }
    }
    let shapes2 = logic_shapes(2);
    for _ in 0..cx.n {
        let (shape, k) = cx.rng.pick(&shapes2).clone();
        let cls: Vec<Cls> = (0..k).map(|_| *cx.rng.pick(CLASSES)).collect();
        let calls = cx.rng.chance(2, 3);
        logic_case(cx, &shape, &cls, calls);
    }
    let shapes3 = logic_shapes(3);
    let shapes4 = logic_shapes(4);
    for i in 0..cx.n {
        let (shape, k) = if i % 4 == 3 { cx.rng.pick(&shapes4).clone() } else { cx.rng.pick(&shapes3).clone() };
        let cls: Vec<Cls> = (0..k).map(|_| *cx.rng.pick(CLASSES)).collect();
        let calls = cx.rng.chance(1, 2);
        logic_case(cx, &shape, &cls, calls);
    }
    // a parenthesised conditional as the first operand of || / && and as the condition of ?:, one clause a value that is
    // not boolean and the other one ending in a relation, `in` or `!`: the operand still counts by its truthiness
    for (ci, cond) in [V::Bool(true), V::Bool(false)].iter().enumerate() {
        for nb in [V::Int(5), V::Int(0), V::Str("a".into()), V::List(vec![]), V::Null] {
            for rel in [bin("==", id("x"), lit(V::Int(1))), bin("<", id("x"), lit(V::Int(1))), bin("in", id("x"), T::List(vec![lit(V::Int(1))])), un('!', 1, id("x"))] {
                for swap in [false, true] {
                    let inner = if swap { tern(id("c"), rel.clone(), id("n")) } else { tern(id("c"), id("n"), rel.clone()) };
                    let p = T::Paren(Box::new(inner));
                    for t in [
                        bin("||", p.clone(), lit(V::Bool(false))),
                        bin("&&", p.clone(), lit(V::Bool(true))),
                        bin("||", p.clone(), id("nobody_bound_this")),
                        bin("&&", p.clone(), id("nobody_bound_this")),
                        tern(p.clone(), lit(V::Str("a".into())), lit(V::Str("b".into()))),
                        un('!', 1, p.clone()),
                    ] {
                        let mut c = cx.case(t);
                        c.bind.insert("c".into(), cond.clone());
                        c.bind.insert("n".into(), nb.clone());
                        c.bind.insert("x".into(), V::Int(ci as i64));
                        c.forms = forms(&["bound"]);
                        cx.out(c);
                    }
                }
            }
        }
    }
    // truthiness table: every value in every truthiness-consuming context
    let mut pool = boundary_pool();
    pool.extend([V::Str("false".into()), V::Str("0".into()), V::Dbl(f64::NAN), V::Bytes(vec![0]), V::List(vec![V::Null]), V::Type("null".into())]);
    for v in pool.iter() {
        let ctxs: Vec<T> = vec![
            un('!', 1, id("x")),
            un('!', 2, id("x")),
            bin("||", id("x"), lit(V::Bool(false))),
            bin("||", lit(V::Bool(false)), id("x")),
            bin("&&", id("x"), lit(V::Bool(true))),
            bin("&&", lit(V::Bool(true)), id("x")),
            tern(id("x"), lit(V::Int(1)), lit(V::Int(2))),
            mcall(T::List(vec![lit(V::Int(1))]), "all", vec![id("e"), id("x")]),
            mcall(T::List(vec![lit(V::Int(1))]), "exists", vec![id("e"), id("x")]),
            mcall(T::List(vec![lit(V::Int(1))]), "filter", vec![id("e"), id("x")]),
            mcall(T::List(vec![lit(V::Int(1))]), "exists_one", vec![id("e"), id("x")]),
            mcall(T::List(vec![lit(V::Int(1))]), "map", vec![id("e"), id("x"), lit(V::Int(7))]),
            // the same truthiness when the macro runs over a map
            mcall(T::Map(vec![(lit(V::Str("k".into())), lit(V::Int(1)))]), "filter", vec![id("e"), id("x")]),
            mcall(T::Map(vec![(lit(V::Str("k".into())), lit(V::Int(1)))]), "map", vec![id("e"), id("x"), lit(V::Int(7))]),
            mcall(id("m1"), "filter", vec![id("e"), id("x")]),
            call("bool", vec![id("x")]),
        ];
        for t in ctxs {
            let mut c = cx.case(t);
            c.bind.insert("x".into(), v.clone());
            c.bind.insert("m1".into(), V::Map(vec![("k".into(), V::Int(1))]));
            c.forms = forms(&["bound", "lit"]);
            cx.out(c);
        }
    }
    // match: scrutinee classes x patterns, arms are recording calls
    let scrut: Vec<V> = vec![V::Int(1), V::Int(5), V::Uint(1), V::Dbl(1.0), V::Str("a".into()), V::Bool(true), V::Null, V::List(vec![]), V::Ts(0)];
    let pats: Vec<Pat> = vec![
        Pat::Any,
        Pat::Type("int".into()),
        Pat::Type("string".into()),
        Pat::Type("uint".into()),
        Pat::Type("double".into()),
        Pat::Type("bool".into()),
        Pat::Cmp("==".into(), lit(V::Int(1))),
        Pat::Cmp(">".into(), lit(V::Int(2))),
        Pat::Cmp("<=".into(), lit(V::Int(1))),
        Pat::Cmp("==".into(), lit(V::Str("a".into()))),
        Pat::Cmp("!=".into(), lit(V::Int(1))),
        Pat::Cmp("==".into(), call("c9", vec![])),
    ];
    for s in scrut.iter() {
        let npairs = if cx.thorough { pats.len() * pats.len() } else { 40 };
        for k in 0..npairs {
            let (p1, p2) = if cx.thorough {
                (pats[k / pats.len()].clone(), pats[k % pats.len()].clone())
            } else {
                (cx.rng.pick(&pats).clone(), cx.rng.pick(&pats).clone())
            };
            let t = T::Match { e: Box::new(id("x")), cases: vec![(p1, call("c1", vec![])), (p2, call("c2", vec![]))] };
            let mut c = cx.case(t);
            c.bind.insert("x".into(), s.clone());
            c.funcs.insert("c1".into(), serde_json::json!({"o":"ok","v":V::Int(10).to_json()}));
            c.funcs.insert("c2".into(), serde_json::json!({"o":"ok","v":V::Int(20).to_json()}));
            c.funcs.insert("c9".into(), serde_json::json!({"o":"ok","v":V::Int(1).to_json()}));
            c.forms = forms(&["bound", "lit"]);
            cx.out(c);
        }
    }
}

// ---------------------------------------------------------------------------------------------
// C06: collections

fn elem_pool() -> Vec<V> {
    vec![V::Int(10), V::Int(-1), V::Uint(7), V::Dbl(1.5), V::Str("s".into()), V::Str("é".into()), V::Bool(true), V::Null, V::Bytes(vec![1, 2]), V::List(vec![V::Int(1)]), V::Map(vec![("k".into(), V::Int(2))]), V::Ts(1_000_000_000), V::Dur(5)]
}

pub fn coll(cx: &mut Ctx) {
    let pool = elem_pool();
    // lists of size 0..4 x every index in [-size-2, size+2] + extremes + non-integer indices
    for size in 0..=4usize {
        let reps = if cx.thorough { 6 } else { 2 };
        for rep in 0..reps {
            let l: Vec<V> = (0..size).map(|i| if rep == 0 { V::Int(100 + i as i64) } else { cx.rng.pick(&pool).clone() }).collect();
            let mut idxs: Vec<V> = ((-(size as i64) - 2)..=(size as i64 + 2)).map(V::Int).collect();
            idxs.extend((0..=(size as u64 + 2)).map(V::Uint));
            idxs.extend([V::Int(i64::MIN), V::Int(i64::MAX), V::Uint(u64::MAX), V::Int(i64::MIN + 1), V::Uint(1 << 63), V::Dbl(0.0), V::Dbl(1.0), V::Str("0".into()), V::Bool(false), V::Null, V::List(vec![])]);
            for i in idxs {
                let mut c = cx.case(idx(id("l"), id("i")));
                c.bind.insert("l".into(), V::List(l.clone()));
                c.bind.insert("i".into(), i);
                c.forms = forms(&["bound", "lit", "mixed"]);
                cx.out(c);
            }
        }
    }
    // map literals: all key sequences of length <= 3 over 2 keys (+ a non-string key), lookups by [k] and .k
    let keys = ["a", "b"];
    for len in 0..=3usize {
        let total = 3usize.pow(len as u32);
        for code in 0..total {
            let mut ks: Vec<T> = Vec::new();
            let mut c0 = code;
            let mut bad = false;
            for _ in 0..len {
                ks.push(match c0 % 3 {
                    0 => lit(V::Str("a".into())),
                    1 => lit(V::Str("b".into())),
                    _ => {
                        bad = true;
                        lit(V::Int(1))
                    }
                });
                c0 /= 3;
            }
            if bad && len > 2 {
                continue;
            }
            let kv: Vec<(T, T)> = ks.iter().enumerate().map(|(i, k)| (k.clone(), id(&format!("v{}", i)))).collect();
            for look in ["a", "b", "c"] {
                for by_sel in [false, true] {
                    let m = T::Map(kv.clone());
                    let t = if by_sel { sel(m, look) } else { idx(m, lit(V::Str(look.into()))) };
                    let mut c = cx.case(t);
                    for i in 0..len {
                        c.bind.insert(format!("v{}", i), V::Int(i as i64 + 1));
                    }
                    c.forms = forms(&["bound", "lit", "mixed"]);
                    cx.out(c);
                }
            }
            // whole-map results
            let mut c = cx.case(T::Map(kv.clone()));
            for i in 0..len {
                c.bind.insert(format!("v{}", i), V::Int(i as i64 + 1));
            }
            c.forms = forms(&["bound", "lit", "mixed"]);
            cx.out(c);
        }
    }
    let _ = keys;
    // bound maps: lookups of present / absent keys, non-string keys
    let m = V::Map(vec![("a".into(), V::Int(1)), ("b".into(), V::Null), ("é".into(), V::Str("x".into()))]);
    for k in [V::Str("a".into()), V::Str("b".into()), V::Str("é".into()), V::Str("zz".into()), V::Int(0), V::Null, V::Bool(true)] {
        let mut c = cx.case(idx(id("m"), id("k")));
        c.bind.insert("m".into(), m.clone());
        c.bind.insert("k".into(), k);
        c.forms = forms(&["bound", "lit", "json"]);
        cx.out(c);
    }
    for f in ["a", "b", "zz", "size"] {
        let mut c = cx.case(sel(id("m"), f));
        c.bind.insert("m".into(), m.clone());
        c.forms = forms(&["bound", "lit", "json"]);
        cx.out(c);
    }
    // keys named like functions, macros and types: the entry is what `.name` and `['name']` give, and `has` sees it
    let named = V::Map(vec![("all".into(), V::Int(1)), ("contains".into(), V::Int(2)), ("filter".into(), V::Int(3)), ("has".into(), V::Int(4)), ("int".into(), V::Int(5)),
                            ("map".into(), V::Int(6)), ("size".into(), V::Int(7)), ("string".into(), V::Int(8))]);
    for f in ["all", "contains", "filter", "has", "int", "map", "size", "string", "exists", "startsWith"] {
        for t in [sel(id("m"), f), idx(id("m"), lit(V::Str(f.into()))), call("has", vec![sel(id("m"), f)]), bin("+", sel(id("m"), f), sel(id("m"), "size"))] {
            let mut c = cx.case(t);
            c.bind.insert("m".into(), named.clone());
            c.forms = forms(&["bound", "lit", "json"]);
            cx.out(c);
        }
    }
    // `in` over operand type pairs
    let mut lhs = boundary_pool();
    lhs.extend([V::Str("s".into()), V::Int(10), V::Uint(10), V::Dbl(10.0), V::List(vec![V::Int(1)])]);
    let rhs: Vec<V> = vec![
        V::List(vec![]),
        V::List(vec![V::Int(10), V::Str("a".into()), V::Null]),
        V::List(vec![V::Uint(10), V::Dbl(0.0), V::List(vec![V::Int(1)])]),
        V::List(vec![V::Dbl(f64::NAN), V::Bool(true), V::Int(1)]),
        V::Map(vec![]),
        V::Map(vec![("a".into(), V::Int(1)), ("".into(), V::Int(2))]),
        V::Str("xaéy".into()),
        V::Str("".into()),
        V::Int(5),
        V::Null,
        V::Bytes(vec![97]),
    ];
    for a in lhs.iter() {
        for b in rhs.iter() {
            binop_case(cx, "in", a, b, &["bound", "lit"]);
        }
    }
    // + and size on list / string / bytes incl. multi-byte text
    let seqs: Vec<V> = vec![
        V::Str("".into()), V::Str("ab".into()), V::Str("é𝄞".into()), V::Bytes(vec![]), V::Bytes(vec![0, 255]), V::Bytes(vec![97]),
        V::List(vec![]), V::List(vec![V::Int(1), V::Str("x".into())]), V::List(vec![V::List(vec![])]), V::Map(vec![]), V::Int(3), V::Null,
    ];
    for a in seqs.iter() {
        for b in seqs.iter() {
            binop_case(cx, "+", a, b, &["bound", "lit"]);
        }
        for t in [call("size", vec![id("x")]), mcall(id("x"), "size", vec![])] {
            let mut c = cx.case(t);
            c.bind.insert("x".into(), a.clone());
            c.forms = forms(&["bound", "lit"]);
            cx.out(c);
        }
    }
    // list literals keep order and elements
    for _ in 0..(cx.n / 4 + 50) {
        let n = cx.rng.below(6) as usize;
        let es: Vec<T> = (0..n).map(|i| id(&format!("e{}", i))).collect();
        let t = match cx.rng.below(3) {
            0 => T::List(es),
            1 => idx(T::List(es), id("i")),
            _ => bin("+", T::List(es), id("l2")),
        };
        let mut c = cx.case(t);
        for i in 0..n {
            c.bind.insert(format!("e{}", i), rand_value(&mut cx.rng, 1));
        }
        c.bind.insert("i".into(), V::Int(cx.rng.range(-7, 7)));
        c.bind.insert("l2".into(), V::List(vec![rand_value(&mut cx.rng, 1)]));
        c.forms = forms(&["bound", "lit", "mixed"]);
        cx.out(c);
    }
    // random larger collections
    for _ in 0..cx.n {
        let n = cx.rng.below(if cx.thorough { 64 } else { 24 }) as usize;
        let l: Vec<V> = (0..n).map(|_| rand_value(&mut cx.rng, 2)).collect();
        let i = if cx.rng.chance(1, 2) { V::Int(cx.rng.range(-(n as i64) - 3, n as i64 + 3)) } else { V::Uint(cx.rng.below(n as u64 + 3)) };
        let mut c = cx.case(idx(id("l"), id("i")));
        c.bind.insert("l".into(), V::List(l));
        c.bind.insert("i".into(), i);
        c.forms = forms(&["bound", "lit"]);
        cx.out(c);
    }
}

// ---------------------------------------------------------------------------------------------
// random expressions (used by several topics)

pub struct ExprGen {
    pub vars: Vec<String>,     // names that may be read (bound or not)
    pub progs: Vec<String>,    // stored programs that may be referenced
    pub funcs: Vec<String>,    // recording functions
    pub macros: bool,
    pub fstrings: bool,
    pub matches: bool,
}

/// Braces inside a literal that is nested in an embedded expression of an f-string are outside what rscel's
/// f-string scanner supports (recorded finding, probed by the topic `fstrbrace`): generated trees avoid them.
fn debrace(t: &T) -> T {
    match t {
        T::FStr(segs) => T::FStr(
            segs.iter()
                .map(|s| match s {
                    Seg::Lit(l) => Seg::Lit(l.replace('{', "(").replace('}', ")")),
                    Seg::Expr(e) => Seg::Expr(debrace(e)),
                })
                .collect(),
        ),
        T::Lit(V::Str(x)) => T::Lit(V::Str(x.replace('{', "(").replace('}', ")"))),
        T::Lit(_) | T::Id(_) => t.clone(),
        T::Un { op, n, e } => T::Un { op: *op, n: *n, e: Box::new(debrace(e)) },
        T::Paren(e) => T::Paren(Box::new(debrace(e))),
        T::Sel { e, f } => T::Sel { e: Box::new(debrace(e)), f: f.clone() },
        T::Bin { op, l, r } => T::Bin { op: op.clone(), l: Box::new(debrace(l)), r: Box::new(debrace(r)) },
        T::Tern { c, a, b } => T::Tern { c: Box::new(debrace(c)), a: Box::new(debrace(a)), b: Box::new(debrace(b)) },
        T::List(es) => T::List(es.iter().map(debrace).collect()),
        T::Map(kv) => T::Map(kv.iter().map(|(k, v)| (debrace(k), debrace(v))).collect()),
        T::Idx { e, i } => T::Idx { e: Box::new(debrace(e)), i: Box::new(debrace(i)) },
        T::Call { f, args } => T::Call { f: f.clone(), args: args.iter().map(debrace).collect() },
        T::MCall { r, f, args } => T::MCall { r: Box::new(debrace(r)), f: f.clone(), args: args.iter().map(debrace).collect() },
        T::Match { e, cases } => T::Match {
            e: Box::new(debrace(e)),
            cases: cases
                .iter()
                .map(|(p, e)| {
                    (
                        match p {
                            Pat::Cmp(op, v) => Pat::Cmp(op.clone(), debrace(v)),
                            other => other.clone(),
                        },
                        debrace(e),
                    )
                })
                .collect(),
        },
    }
}

/// C14 (recorded finding): an embedded expression of an f-string that contains a brace inside a string literal
/// or inside a nested f-string.
pub fn fstrbrace(cx: &mut Ctx) {
    let probes: Vec<T> = vec![
        T::FStr(vec![Seg::Expr(lit(V::Str("}".into())))]),
        T::FStr(vec![Seg::Expr(lit(V::Str("{".into())))]),
        T::FStr(vec![Seg::Lit("a".into()), Seg::Expr(T::FStr(vec![Seg::Lit("}".into()), Seg::Expr(id("x"))]))]),
        T::FStr(vec![Seg::Expr(T::FStr(vec![Seg::Lit("{".into()), Seg::Expr(id("x"))])), Seg::Lit("b".into())]),
    ];
    for t in probes {
        let mut c = cx.case(t);
        c.bind.insert("x".into(), V::Str("v".into()));
        c.forms = forms(&["bound"]);
        cx.out(c);
    }
}

impl ExprGen {
    pub fn leaf(&self, r: &mut Rng) -> T {
        match r.below(10) {
            0..=3 if !self.vars.is_empty() => id(r.pick(&self.vars[..]).as_str()),
            4 if !self.progs.is_empty() => id(r.pick(&self.progs[..]).as_str()),
            5 if !self.funcs.is_empty() => call(r.pick(&self.funcs[..]).as_str(), vec![]),
            _ => lit(match r.below(9) {
                0 => V::Int(r.range(0, 3)),
                1 => V::Int(r.range(0, 100)),
                2 => V::Bool(r.chance(1, 2)),
                3 => V::Str(r.pick_str(&["", "a", "b", "é"]).to_string()),
                4 => V::Uint(r.below(4)),
                5 => V::Dbl(r.range(0, 6) as f64 / 2.0),
                6 => V::Null,
                7 => V::Bytes(vec![97]),
                _ => V::Int(r.range(0, 9)),
            }),
        }
    }

    pub fn expr(&self, r: &mut Rng, depth: u32) -> T {
        if depth == 0 {
            return self.leaf(r);
        }
        let d = depth - 1;
        match r.below(26) {
            0..=2 => self.leaf(r),
            3..=5 => bin(r.pick_str(&["+", "-", "*", "/", "%"]), self.expr(r, d), self.expr(r, d)),
            6..=7 => bin(r.pick_str(&["<", "<=", "==", "!=", ">=", ">"]), self.expr(r, d), self.expr(r, d)),
            8 => bin("in", self.expr(r, d), self.expr(r, d)),
            9..=10 => bin(r.pick_str(&["||", "&&"]), self.expr(r, d), self.expr(r, d)),
            11 => tern(self.expr(r, d), self.expr(r, d), self.expr(r, d)),
            12 => {
                let op = if r.chance(1, 2) { '!' } else { '-' };
                let e = self.expr(r, d);
                match e {
                    T::Un { op: o2, .. } if o2 == op => e,
                    _ => un(op, 1 + r.below(2) as u32, e),
                }
            }
            13 => T::List((0..r.below(4)).map(|_| self.expr(r, d)).collect()),
            14 => idx(self.expr(r, d), self.expr(r, d)),
            15 => T::Map((0..r.below(3)).map(|_| (lit(V::Str(r.pick_str(&["a", "b", "k"]).to_string())), self.expr(r, d))).collect()),
            16 => sel(self.expr(r, d), r.pick_str(&["a", "b", "k"])),
            17 => call(r.pick_str(&["size", "int", "uint", "double", "string", "bool", "type", "dyn", "bytes"]), vec![self.expr(r, d)]),
            18 => call("has", vec![self.expr(r, d)]),
            19 => call("coalesce", (0..r.below(4)).map(|_| self.expr(r, d)).collect()),
            20 => mcall(self.expr(r, d), "size", vec![]),
            21 | 22 if self.macros => {
                let v = r.pick_str(&["e", "x", "it"]).to_string();
                let mut inner = ExprGen { vars: self.vars.clone(), progs: self.progs.clone(), funcs: self.funcs.clone(), macros: depth > 1, fstrings: self.fstrings, matches: self.matches };
                inner.vars.push(v.clone());
                inner.vars.push(v.clone());
                let recv = if r.chance(2, 3) { T::List((0..r.below(4)).map(|_| self.expr(r, d.min(1))).collect()) } else { self.expr(r, d) };
                match r.below(7) {
                    0 => mcall(recv, "all", vec![id(&v), inner.expr(r, d)]),
                    1 => mcall(recv, "exists", vec![id(&v), inner.expr(r, d)]),
                    2 => mcall(recv, "exists_one", vec![id(&v), inner.expr(r, d)]),
                    3 => mcall(recv, "filter", vec![id(&v), inner.expr(r, d)]),
                    4 => mcall(recv, "map", vec![id(&v), inner.expr(r, d)]),
                    5 => mcall(recv, "map", vec![id(&v), inner.expr(r, d), inner.expr(r, d)]),
                    _ => {
                        let mut inner2 = ExprGen { vars: inner.vars.clone(), progs: self.progs.clone(), funcs: self.funcs.clone(), macros: false, fstrings: false, matches: false };
                        inner2.vars.push("acc".into());
                        mcall(recv, "reduce", vec![id("acc"), id(&v), inner2.expr(r, d), self.expr(r, d)])
                    }
                }
            }
            23 if self.fstrings => {
                let n = 1 + r.below(3);
                T::FStr((0..n).map(|_| if r.chance(1, 2) { Seg::Lit(r.pick_str(&["a", "{", "}", " x", "é", "'"]).to_string()) } else { Seg::Expr(debrace(&self.expr(r, d.min(1)))) }).collect())
            }
            24 if self.matches => {
                let ncase = 1 + r.below(2);
                T::Match {
                    e: Box::new(self.expr(r, d)),
                    cases: (0..ncase)
                        .map(|_| {
                            (
                                match r.below(4) {
                                    0 => Pat::Any,
                                    1 => Pat::Type(r.pick_str(&["int", "string", "bool", "uint", "double"]).to_string()),
                                    _ => Pat::Cmp(r.pick_str(&["==", "<", ">=", "!="]).to_string(), self.leaf(r)),
                                },
                                self.expr(r, d),
                            )
                        })
                        .collect(),
                }
            }
            _ => bin(r.pick_str(&["+", "==", "&&", "||"]), self.expr(r, d), self.expr(r, d)),
        }
    }
}

fn bind_random(c: &mut Case, names: &[&str], r: &mut Rng, unbound_chance: u64) {
    for n in names {
        if r.below(10) < unbound_chance {
            continue;
        }
        let v = match r.below(10) {
            0 => V::Int(0),
            1 => V::Int(r.range(-3, 9)),
            2 => V::Bool(r.chance(1, 2)),
            3 => V::Str(r.pick_str(&["", "a", "ab"]).to_string()),
            4 => V::List(vec![V::Int(1), V::Int(2), V::Int(3)]),
            5 => V::Map(vec![("a".into(), V::Int(1)), ("b".into(), V::Map(vec![("k".into(), V::Null)]))]),
            6 => V::Uint(r.below(5)),
            7 => V::Dbl(r.range(-4, 4) as f64 / 2.0),
            8 => V::Null,
            _ => V::Int(r.range(0, 2)),
        };
        c.bind.insert(n.to_string(), v);
    }
}

// ---------------------------------------------------------------------------------------------
// C07: comprehension macros

pub fn macros(cx: &mut Ctx) {
    let macro_forms: Vec<(&str, usize)> = vec![("all", 1), ("exists", 1), ("exists_one", 1), ("filter", 1), ("map", 1), ("map", 2)];
    // bodies over int elements: K is a position-dependent constant
    let bodies = |k: i64| -> Vec<T> {
        vec![
            bin("==", id("x"), lit(V::Int(k))),                                                   // truthy exactly at element k
            bin("!=", id("x"), lit(V::Int(k))),
            bin(">", bin("/", lit(V::Int(6)), bin("-", id("x"), lit(V::Int(k)))), lit(V::Int(0))), // fails at element k
            bin(">", bin("+", id("x"), id("y")), lit(V::Int(2))),                                  // reads an outer variable
            bin(">", bin("+", id("x"), id("p")), lit(V::Int(2))),                                  // reads a stored program
            mcall(T::List(vec![id("x"), lit(V::Int(1))]), "all", vec![id("x"), bin(">", id("x"), lit(V::Int(0)))]), // inner macro, same name
            mcall(T::List(vec![id("x")]), "exists", vec![id("z"), bin("==", id("z"), id("x"))]),   // inner macro, other name
            id("x"),                                                                               // truthiness of the element itself
            bin("==", id("x"), id("nope")),                                                        // unbound inside the body
            call("c1", vec![id("x")]),                                                             // recording function: call order and count
        ]
    };
    for len in 0..=4usize {
        let lists: Vec<Vec<i64>> = vec![(1..=len as i64).collect(), (0..len as i64).collect(), vec![1; len], (0..len as i64).map(|i| (i * 7) % 3).collect()];
        for l in lists {
            for (m, nb) in macro_forms.iter() {
                for k in 0..=(len as i64) {
                    for (bi, body) in bodies(k).into_iter().enumerate() {
                        if !cx.thorough && bi >= 3 && k > 1 {
                            continue;
                        }
                        let mut args = vec![id("x"), body.clone()];
                        if *nb == 2 {
                            args.push(bin("*", id("x"), lit(V::Int(10))));
                        }
                        let mut c = cx.case(mcall(id("l"), m, args));
                        c.bind.insert("l".into(), V::List(l.iter().map(|i| V::Int(*i)).collect()));
                        c.bind.insert("y".into(), V::Int(1));
                        c.bind.insert("x".into(), V::Str("outer".into())); // must be shadowed, and unchanged afterwards
                        c.progs.insert("p".into(), bin("+", id("y"), lit(V::Int(1))));
                        c.funcs.insert("c1".into(), serde_json::json!({"o":"ok","v":V::Bool(k % 2 == 0).to_json()}));
                        c.forms = forms(&["bound", "lit"]);
                        cx.out(c);
                    }
                }
            }
            // reduce: non-commutative step, failing step, seed reading outer names
            for (step, seed) in [
                (bin("-", bin("*", id("acc"), lit(V::Int(2))), id("x")), lit(V::Int(1))),
                (bin("+", id("acc"), call("string", vec![id("x")])), lit(V::Str("s".into()))),
                (bin("/", id("acc"), id("x")), lit(V::Int(1000))),
                (bin("+", id("acc"), bin("*", id("x"), id("y"))), id("y")),
                (bin("+", id("acc"), id("x")), id("nope")),
                (T::List(vec![id("acc"), id("x")]), T::List(vec![])),
            ] {
                let mut c = cx.case(mcall(id("l"), "reduce", vec![id("acc"), id("x"), step, seed]));
                c.bind.insert("l".into(), V::List(l.iter().map(|i| V::Int(*i)).collect()));
                c.bind.insert("y".into(), V::Int(3));
                c.bind.insert("acc".into(), V::Str("outer-acc".into()));
                c.forms = forms(&["bound", "lit"]);
                cx.out(c);
            }
        }
    }
    // exists_one with hits at every pair of positions
    for len in 0..=5usize {
        for a in 0..len {
            for b in a..len {
                let l: Vec<V> = (0..len).map(|i| V::Int(if i == a || i == b { 1 } else { 0 })).collect();
                let mut c = cx.case(mcall(id("l"), "exists_one", vec![id("x"), bin("==", id("x"), lit(V::Int(1)))]));
                c.bind.insert("l".into(), V::List(l));
                c.forms = forms(&["bound", "lit"]);
                cx.out(c);
            }
        }
    }
    // wrong shapes
    for t in [
        mcall(id("l"), "all", vec![id("x")]),
        mcall(id("l"), "all", vec![lit(V::Int(1)), lit(V::Bool(true))]),
        mcall(id("l"), "map", vec![id("x"), id("x"), id("x"), id("x")]),
        mcall(lit(V::Int(5)), "all", vec![id("x"), lit(V::Bool(true))]),
        mcall(lit(V::Str("abc".into())), "map", vec![id("x"), id("x")]),
        mcall(id("l"), "reduce", vec![id("a"), id("x"), id("a")]),
        mcall(lit(V::Null), "filter", vec![id("x"), lit(V::Bool(true))]),
        mcall(bin("/", lit(V::Int(1)), id("zero")), "map", vec![id("x"), id("x")]),
        mcall(id("nope"), "exists", vec![id("x"), lit(V::Bool(true))]),
    ] {
        let mut c = cx.case(t);
        c.bind.insert("l".into(), V::List(vec![V::Int(1), V::Int(2)]));
        c.bind.insert("zero".into(), V::Int(0));
        c.forms = forms(&["bound", "lit"]);
        cx.out(c);
    }
    // the loop variable shadows everything of its name: a bound variable, a stored program, both
    for mac in ["all", "exists", "exists_one", "filter", "map"] {
        for (with_var, with_prog) in [(false, true), (true, true), (true, false)] {
            for t in [
                mcall(id("l"), mac, vec![id("x"), bin(">", id("x"), lit(V::Int(1)))]),
                mcall(id("l"), mac, vec![id("x"), bin("==", mcall(T::List(vec![id("x")]), "map", vec![id("x"), bin("+", id("x"), lit(V::Int(1)))]), T::List(vec![lit(V::Int(3))]))]),
                bin("+", mcall(id("l"), "map", vec![id("x"), bin("*", id("x"), lit(V::Int(2)))]), T::List(vec![id("x")])),
            ] {
                let mut c = cx.case(t);
                c.bind.insert("l".into(), V::List(vec![V::Int(1), V::Int(2), V::Int(3)]));
                if with_var {
                    c.bind.insert("x".into(), V::Int(50));
                }
                if with_prog {
                    c.progs.insert("x".into(), lit(V::Int(100)));
                }
                c.forms = forms(&["bound", "lit"]);
                cx.out(c);
            }
        }
    }
    let reduce_shadow = mcall(id("l"), "reduce", vec![id("acc"), id("x"), bin("+", id("acc"), id("x")), lit(V::Int(0))]);
    {
        let mut c = cx.case(reduce_shadow);
        c.bind.insert("l".into(), V::List(vec![V::Int(1), V::Int(2), V::Int(3)]));
        c.progs.insert("x".into(), lit(V::Int(100)));
        c.progs.insert("acc".into(), lit(V::Int(1000)));
        c.forms = forms(&["bound", "lit"]);
        cx.out(c);
    }
    // maps: one fixed order.  The same map, built in several ways, must iterate identically.
    for nkeys in 0..=6usize {
        for rep in 0..(if cx.thorough { 12 } else { 4 }) {
            let keys: Vec<String> = (0..nkeys).map(|i| format!("{}{}", ["k", "a", "zz", "é", "m", "b"][(i + rep) % 6], i)).collect();
            let m = V::Map({
                let mut kv: Vec<(String, V)> = keys.iter().enumerate().map(|(i, k)| (k.clone(), V::Int(i as i64))).collect();
                kv.sort_by(|a, b| a.0.cmp(&b.0));
                kv
            });
            for t in [
                mcall(id("m"), "map", vec![id("k"), id("k")]),
                mcall(id("m"), "filter", vec![id("k"), bin("!=", id("k"), lit(V::Str("a1".into())))]),
                mcall(id("m"), "map", vec![id("k"), bin("in", id("k"), id("m")), idx(id("m"), id("k"))]),
            ] {
                let mut c = cx.case(t);
                c.bind.insert("m".into(), m.clone());
                c.forms = forms(&["bound", "lit", "json", "bound"]);
                c.extra = serde_json::json!({"same": true});
                cx.out(c);
            }
        }
    }
    // ... also when the body fails on two keys in different ways: the first failing key in the one fixed order decides,
    // whatever the hash state of that map instance (observed directly and through coalesce / has)
    for rep in 0..(if cx.thorough { 24 } else { 8 }) {
        let keys: Vec<String> = (0..8).map(|i| format!("{}{}", ["k", "a", "zz", "é", "m", "b", "q", "w"][(i + rep) % 8], i)).collect();
        let m = V::Map({
            let mut kv: Vec<(String, V)> = keys.iter().enumerate().map(|(i, k)| (k.clone(), V::Int(i as i64))).collect();
            kv.sort_by(|a, b| a.0.cmp(&b.0));
            kv
        });
        let (ka, kb) = (keys[rep % 8].clone(), keys[(rep + 3) % 8].clone());
        let body = tern(bin("==", id("k"), lit(V::Str(ka))), id("nobody_bound_this"), tern(bin("==", id("k"), lit(V::Str(kb))), bin("/", lit(V::Int(1)), id("zero")), lit(V::Bool(true))));
        for mac in ["filter", "map"] {
            let call_ = mcall(id("m"), mac, vec![id("k"), body.clone()]);
            for t in [call_.clone(), call("coalesce", vec![call_.clone(), lit(V::Str("fallback".into()))]), call("has", vec![call_.clone()])] {
                let mut c = cx.case(t);
                c.bind.insert("m".into(), m.clone());
                c.bind.insert("zero".into(), V::Int(0));
                c.forms = forms(&["bound", "lit", "json", "bound", "bound"]);
                c.extra = serde_json::json!({"same": true});
                cx.out(c);
            }
        }
    }
    // random: longer lists (beyond the call-depth limit), all element types, generated bodies
    let g = ExprGen { vars: vec!["x".into(), "x".into(), "y".into(), "l".into()], progs: vec!["p".into()], funcs: vec![], macros: true, fstrings: false, matches: false };
    for _ in 0..cx.n {
        let n = cx.rng.below(if cx.thorough { 65 } else { 40 }) as usize;
        let l: Vec<V> = (0..n)
            .map(|_| match cx.rng.below(8) {
                0..=4 => V::Int(cx.rng.range(-2, 5)),
                5 => V::Str(rand_string(&mut cx.rng, 2)),
                6 => V::Bool(cx.rng.chance(1, 2)),
                _ => rand_value(&mut cx.rng, 1),
            })
            .collect();
        let body = g.expr(&mut cx.rng, 2);
        let t = match cx.rng.below(7) {
            0 => mcall(id("l"), "all", vec![id("x"), body]),
            1 => mcall(id("l"), "exists", vec![id("x"), body]),
            2 => mcall(id("l"), "exists_one", vec![id("x"), body]),
            3 => mcall(id("l"), "filter", vec![id("x"), body]),
            4 => mcall(id("l"), "map", vec![id("x"), body]),
            5 => mcall(id("l"), "map", vec![id("x"), body, g.expr(&mut cx.rng, 1)]),
            _ => mcall(id("l"), "reduce", vec![id("y"), id("x"), body, lit(V::Int(0))]),
        };
        // a step that mentions the accumulator can multiply its size per element (k mentions: k-fold; inside a macro over
        // the list: n-fold): keep such folds short
        let mut l = l;
        if let T::MCall { f, args, .. } = &t {
            if f == "reduce" {
                let mut names = Vec::new();
                crate::tree::ident_names(&args[2], &mut names);
                if names.iter().any(|n| n == "y" || n == "p") {
                    l.truncate(6);
                }
            }
        }
        let mut c = cx.case(t);
        c.bind.insert("l".into(), V::List(l));
        c.bind.insert("y".into(), V::Int(cx.rng.range(0, 3)));
        if cx.rng.chance(1, 2) {
            c.bind.insert("x".into(), V::Int(99));
        }
        c.progs.insert("p".into(), bin("+", id("y"), lit(V::Int(1))));
        c.forms = forms(&["bound", "lit"]);
        cx.out(c);
    }
}

// ---------------------------------------------------------------------------------------------
// C08: has() and coalesce()

fn path_expr(root: &str, fields: &[&str], by_index: bool) -> T {
    let mut t = id(root);
    for f in fields {
        t = if by_index { idx(t, lit(V::Str(f.to_string()))) } else { sel(t, f) };
    }
    t
}

fn nested_map(depth: usize, leaf: Option<V>) -> V {
    // {"f1": {"f2": ... leaf}}
    let names = ["f1", "f2", "f3", "f4"];
    let mut v = match leaf {
        Some(l) => Some(l),
        None => None,
    };
    for d in (0..depth).rev() {
        v = Some(V::Map(match v {
            Some(inner) => vec![(names[d].to_string(), inner)],
            None => vec![],
        }));
    }
    v.unwrap_or(V::Map(vec![]))
}

pub fn hascoal(cx: &mut Ctx) {
    let names = ["f1", "f2", "f3", "f4"];
    for depth in 0..=4usize {
        let fields: Vec<&str> = names[..depth].to_vec();
        // binding configurations
        let mut configs: Vec<(&str, Option<V>)> = vec![("root-unbound", None)];
        configs.push(("present", Some(nested_map(depth, Some(V::Int(7))))));
        configs.push(("leaf-null", Some(nested_map(depth, Some(V::Null)))));
        configs.push(("leaf-false", Some(nested_map(depth, Some(V::Bool(false))))));
        if depth > 0 {
            configs.push(("leaf-missing", Some(nested_map(depth, None))));
        }
        for j in 1..depth {
            // intermediate map missing at level j
            configs.push(("mid-missing", Some(nested_map(j, None))));
            // intermediate is not a map
            configs.push(("mid-not-map", Some(nested_map(j, Some(V::Int(5))))));
            configs.push(("mid-list", Some(nested_map(j, Some(V::List(vec![V::Int(1)]))))));
            configs.push(("mid-null", Some(nested_map(j, Some(V::Null)))));
        }
        if depth > 0 {
            configs.push(("root-not-map", Some(V::Str("s".into()))));
        }
        for (_name, root) in configs.iter() {
            for by_index in [false, true] {
                let p = path_expr("r", &fields, by_index);
                let ctxs: Vec<T> = vec![
                    call("has", vec![p.clone()]),
                    call("coalesce", vec![p.clone(), lit(V::Int(42))]),
                    call("coalesce", vec![lit(V::Null), p.clone()]),
                    mcall(T::List(vec![lit(V::Int(1)), lit(V::Int(2))]), "map", vec![id("e"), call("has", vec![p.clone()])]),
                    mcall(T::List(vec![lit(V::Int(1))]), "all", vec![id("e"), call("coalesce", vec![p.clone(), lit(V::Bool(true))])]),
                    call("has", vec![call("coalesce", vec![p.clone()])]),
                    call("coalesce", vec![call("has", vec![p.clone()]), lit(V::Int(1))]),
                    call("size", vec![T::List(vec![call("has", vec![p.clone()])])]),
                    un('!', 1, call("has", vec![p.clone()])),
                    call("has", vec![bin("+", p.clone(), lit(V::Int(1)))]),
                    call("has", vec![bin("/", p.clone(), lit(V::Int(0)))]),
                    call("has", vec![idx(T::List(vec![p.clone()]), lit(V::Int(3)))]),
                    call("has", vec![call("size", vec![p.clone()])]),
                    call("has", vec![mcall(p.clone(), "size", vec![])]),
                    tern(call("has", vec![p.clone()]), p.clone(), lit(V::Str("dflt".into()))),
                ];
                for (ci, t) in ctxs.into_iter().enumerate() {
                    if !cx.thorough && ci >= 9 && depth >= 3 {
                        continue;
                    }
                    let mut c = cx.case(t);
                    if let Some(v) = root {
                        c.bind.insert("r".into(), v.clone());
                    }
                    c.forms = forms(&["bound", "lit", "json"]);
                    cx.out(c);
                }
            }
        }
    }
    // coalesce: all argument lists of length 0..5 over {present, null, absent, failing-other}, as recording calls
    for len in 0..=5usize {
        let total = 4usize.pow(len as u32);
        for code in 0..total {
            if !cx.thorough && len == 5 && cx.rng.below(4) != 0 {
                continue;
            }
            let mut args = Vec::new();
            let mut c0 = code;
            let mut funcs = Vec::new();
            for i in 0..len {
                let kind = c0 % 4;
                c0 /= 4;
                let name = format!("c{}", i + 1);
                args.push(call(&name, vec![]));
                funcs.push((
                    name,
                    match kind {
                        0 => serde_json::json!({"o":"ok","v":V::Int(i as i64 + 1).to_json()}),
                        1 => serde_json::json!({"o":"ok","v":V::Null.to_json()}),
                        2 => serde_json::json!({"o":"err","c":"absent"}),
                        _ => serde_json::json!({"o":"err","c":"other"}),
                    },
                ));
            }
            let placements: Vec<T> = vec![
                call("coalesce", args.clone()),
                mcall(T::List(vec![lit(V::Int(1))]), "map", vec![id("e"), call("coalesce", args.clone())]),
                call("has", vec![call("coalesce", args.clone())]),
            ];
            for (pi, t) in placements.into_iter().enumerate() {
                if pi > 0 && len > 3 && !cx.thorough {
                    continue;
                }
                let mut c = cx.case(t);
                for (n, s) in funcs.iter() {
                    c.funcs.insert(n.clone(), s.clone());
                }
                c.forms = forms(&["bound"]);
                cx.out(c);
            }
        }
    }
    // has on every kind of failure
    for t in [
        call("has", vec![bin("/", lit(V::Int(1)), id("zero"))]),
        call("has", vec![idx(id("l"), lit(V::Int(9)))]),
        call("has", vec![bin("+", lit(V::Int(1)), lit(V::Str("a".into())))]),
        call("has", vec![un('-', 1, lit(V::Str("a".into())))]),
        call("has", vec![idx(id("m"), lit(V::Int(1)))]),
        call("has", vec![idx(id("m"), lit(V::Str("zz".into())))]),
        call("has", vec![sel(id("m"), "zz")]),
        call("has", vec![sel(id("m"), "a")]),
        call("has", vec![id("nope")]),
        call("has", vec![id("p_ok")]),
        call("has", vec![id("p_absent")]),
        call("has", vec![id("p_fail")]),
        call("has", vec![]),
        call("has", vec![id("m"), id("m")]),
        call("has", vec![call("int", vec![lit(V::Str("x".into()))])]),
        call("has", vec![sel(bin("/", lit(V::Int(1)), id("zero")), "foo")]),
        call("coalesce", vec![sel(bin("/", id("l"), id("zero")), "foo"), lit(V::Int(7))]),
        call("coalesce", vec![]),
        call("coalesce", vec![id("nope"), sel(id("m"), "zz"), idx(id("m"), lit(V::Str("q".into()))), lit(V::Null)]),
        call("coalesce", vec![id("nope"), bin("/", lit(V::Int(1)), id("zero")), lit(V::Int(3))]),
        call("coalesce", vec![id("p_absent"), id("p_ok")]),
        call("coalesce", vec![id("p_fail"), id("p_ok")]),
    ] {
        let mut c = cx.case(t);
        c.bind.insert("zero".into(), V::Int(0));
        c.bind.insert("l".into(), V::List(vec![V::Int(1)]));
        c.bind.insert("m".into(), V::Map(vec![("a".into(), V::Null)]));
        c.progs.insert("p_ok".into(), lit(V::Int(5)));
        c.progs.insert("p_absent".into(), sel(id("m"), "nokey"));
        c.progs.insert("p_fail".into(), bin("%", lit(V::Int(5)), id("zero")));
        c.forms = forms(&["bound", "lit", "json"]);
        cx.out(c);
    }
    // random bound maps
    for _ in 0..cx.n {
        let depth = cx.rng.below(4) as usize;
        let root = rand_value(&mut cx.rng, 3);
        let fields: Vec<&str> = (0..depth).map(|_| cx.rng.pick_str(&["a", "b", "k", "zz"])).collect();
        let p = path_expr("r", &fields, cx.rng.chance(1, 3));
        let t = if cx.rng.chance(1, 2) { call("has", vec![p]) } else { call("coalesce", vec![p, lit(V::Int(-1))]) };
        let mut c = cx.case(t);
        c.bind.insert("r".into(), root);
        c.forms = forms(&["bound", "lit", "json"]);
        cx.out(c);
    }
}

// ---------------------------------------------------------------------------------------------
// C09: constant folding is invisible

pub fn fold(cx: &mut Ctx) {
    let g = ExprGen { vars: vec!["a".into(), "b".into(), "c".into(), "d".into()], progs: vec![], funcs: vec![], macros: true, fstrings: true, matches: true };
    let total = cx.n;
    for i in 0..total {
        let depth = 2 + (i % 3) as u32;
        let t = g.expr(&mut cx.rng, depth);
        let mut c = cx.case(t);
        bind_random(&mut c, &["a", "b", "c", "d"], &mut cx.rng, 2);
        let k = c.bind.len();
        let mut fs: Vec<String> = Vec::new();
        for mask in 0..(1u32 << k) {
            fs.push(format!("sub:{}", (0..k).map(|j| if mask >> j & 1 == 1 { '1' } else { '0' }).collect::<String>()));
        }
        c.forms = fs;
        cx.out(c);
    }
    // targeted: the constructs the compiler folds or evaluates at compile time
    let targeted: Vec<T> = vec![
        tern(id("a"), lit(V::Int(2)), lit(V::Int(3))),
        tern(bin(">", bin("/", id("a"), id("b")), lit(V::Int(0))), lit(V::Str("t".into())), lit(V::Str("f".into()))),
        sel(T::Map(vec![(lit(V::Str("k".into())), id("a")), (lit(V::Str("k".into())), id("b"))]), "k"),
        idx(T::Map(vec![(id("c"), id("a")), (id("c"), id("b"))]), id("c")),
        mcall(T::List(vec![id("a")]), "filter", vec![id("v"), lit(V::Bool(true))]),
        mcall(T::List(vec![id("a"), id("b")]), "map", vec![id("v"), bin("+", id("v"), id("a"))]),
        call("size", vec![mcall(T::List(vec![T::List(vec![id("a")])]), "filter", vec![id("v"), bin("in", id("v"), T::List(vec![T::List(vec![lit(V::Int(1))])]))])]),
        mcall(T::List(vec![lit(V::Int(1))]), "map", vec![id("v"), T::Map(vec![(lit(V::Str("k".into())), call("has", vec![id("a")]))])]),
        mcall(T::List(vec![lit(V::Int(1)), lit(V::Int(2))]), "reduce", vec![id("acc"), id("v"), bin("+", id("acc"), call("coalesce", vec![id("a"), id("v")])), lit(V::Int(0))]),
        call("size", vec![T::List(vec![id("a"), id("b")])]),
        call("int", vec![id("c")]),
        call("string", vec![bin("+", id("a"), id("b"))]),
        bin("||", bin("/", id("a"), id("b")), id("d")),
        bin("&&", id("d"), bin("/", id("a"), id("b"))),
        bin("==", T::List(vec![bin("/", id("a"), id("b"))]), T::List(vec![lit(V::Int(1))])),
        bin("!=", T::List(vec![id("a")]), T::List(vec![lit(V::Int(1))])),
        T::FStr(vec![Seg::Lit("x=".into()), Seg::Expr(id("a")), Seg::Lit("{y}".into()), Seg::Expr(bin("+", id("a"), id("b")))]),
        T::Match { e: Box::new(id("a")), cases: vec![(Pat::Type("int".into()), id("b")), (Pat::Cmp(">".into(), id("b")), lit(V::Int(1))), (Pat::Any, id("c"))] },
        un('-', 1, id("a")),
        un('!', 2, id("a")),
        bin("+", id("a"), un('-', 1, id("b"))),
        call("max", vec![id("a"), id("b"), lit(V::Int(3))]),
        mcall(T::List(vec![id("b"), id("a"), lit(V::Int(2))]), "sort", vec![]),
        idx(T::List(vec![id("a"), id("b")]), un('-', 1, lit(V::Int(1)))),
    ];
    let pool: Vec<Option<V>> = vec![None, Some(V::Int(0)), Some(V::Int(1)), Some(V::Int(i64::MIN)), Some(V::Int(i64::MAX)), Some(V::Str("k".into())), Some(V::Bool(true)), Some(V::Null), Some(V::Dbl(0.5)), Some(V::Uint(u64::MAX)), Some(V::List(vec![V::Int(1)]))];
    for t in targeted.iter() {
        let reps = if cx.thorough { 120 } else { 25 };
        for _ in 0..reps {
            let mut c = cx.case(t.clone());
            for n in ["a", "b", "c", "d"] {
                if let Some(v) = cx.rng.pick(&pool) {
                    c.bind.insert(n.to_string(), v.clone());
                }
            }
            let k = c.bind.len();
            c.forms = (0..(1u32 << k)).map(|mask| format!("sub:{}", (0..k).map(|j| if mask >> j & 1 == 1 { '1' } else { '0' }).collect::<String>())).collect();
            cx.out(c);
        }
    }
}

// ---------------------------------------------------------------------------------------------
// C12: name resolution, program references, depth

fn edge(kind: usize, target: &str) -> T {
    let q = || id(target);
    let one = || lit(V::Int(1));
    match kind {
        0 => bin("+", q(), one()),                                                                      // bare identifier
        1 => bin("+", idx(mcall(T::List(vec![q()]), "map", vec![id("x"), id("x")]), lit(V::Int(0))), one()), // macro range
        2 => idx(mcall(T::List(vec![one()]), "map", vec![id("x"), bin("+", q(), id("x"))]), lit(V::Int(0))), // macro body
        3 => bin("+", call("max", vec![q(), lit(V::Int(-1000))]), one()),                                // call argument
        4 => bin("+", call("coalesce", vec![q(), lit(V::Int(0))]), one()),                               // coalesce argument
        5 => bin("+", tern(call("has", vec![q()]), lit(V::Int(5)), lit(V::Int(0))), one()),              // has argument
        6 => bin("+", call("size", vec![T::FStr(vec![Seg::Expr(q())])]), one()),                        // f-string segment
        7 => bin("+", idx(T::List((0..80).map(|i| lit(V::Int(i))).collect()), q()), one()),              // index expression
        8 => bin("||", q(), lit(V::Bool(true))),                                                        // absorbing edge
        9 => bin("+", idx(mcall(T::List(vec![one()]), "filter", vec![id("x"), bin(">", q(), lit(V::Int(-5)))]), lit(V::Int(0))), one()), // macro predicate
        // every other macro, and map receivers
        10 => bin("+", call("size", vec![mcall(T::Map(vec![(lit(V::Str("k".into())), one())]), "filter", vec![id("x"), bin(">", q(), lit(V::Int(-5)))])]), lit(V::Int(0))),
        11 => bin("+", idx(mcall(T::Map(vec![(lit(V::Str("k".into())), one())]), "map", vec![id("x"), q()]), lit(V::Int(0))), one()),
        12 => bin("+", tern(mcall(T::List(vec![one()]), "all", vec![id("x"), bin(">", q(), lit(V::Int(-5)))]), one(), lit(V::Int(0))), lit(V::Int(0))),
        13 => bin("+", tern(mcall(T::List(vec![one()]), "exists", vec![id("x"), bin(">", q(), lit(V::Int(-5)))]), one(), lit(V::Int(0))), lit(V::Int(0))),
        14 => bin("+", tern(mcall(T::List(vec![one()]), "exists_one", vec![id("x"), bin(">", q(), lit(V::Int(-5)))]), one(), lit(V::Int(0))), lit(V::Int(0))),
        _ => bin("+", mcall(T::List(vec![one()]), "reduce", vec![id("acc"), id("x"), bin("+", id("acc"), q()), lit(V::Int(0))]), one()),
    }
}
const NEDGE: usize = 16;

/// C01: reference cycles of length one and two through every referencing construct: each must end in an
/// error (or a value), never in stack exhaustion; every case in a child process, also on a 2 MB thread.
pub fn cycles(cx: &mut Ctx) {
    let child = serde_json::json!({"child": true, "law": "cycle"});
    let mut emit = |cx: &mut Ctx, progs: Vec<(&str, T)>| {
        let mut c = cx.case(id("p1"));
        for (n, t) in progs {
            c.progs.insert(n.to_string(), t);
        }
        c.bind.insert("v".into(), V::Int(7));
        c.forms = forms(&["bound", "thread"]);
        c.extra = child.clone();
        cx.out(c);
    };
    // a failure an enclosing operator could absorb: the cycle still ends in an error
    let absorb = |k: usize, t: T| match k {
        0 => t,
        1 => bin("||", t, lit(V::Bool(true))),
        2 => call("coalesce", vec![t, lit(V::Int(1))]),
        _ => tern(call("has", vec![t]), lit(V::Int(1)), lit(V::Int(2))),
    };
    for k1 in 0..NEDGE {
        for a in 0..4 {
            emit(cx, vec![("p1", absorb(a, edge(k1, "p1")))]);
        }
        for k2 in 0..NEDGE {
            emit(cx, vec![("p1", edge(k1, "p2")), ("p2", absorb((k1 + k2) % 4, edge(k2, "p1")))]);
        }
    }
}

pub fn refs(cx: &mut Ctx) {
    let names = ["p1", "p2", "p3", "p4"];
    let leafs: Vec<T> = vec![lit(V::Int(0)), id("v"), bin("/", lit(V::Int(1)), id("zero")), id("nope")];
    let child = serde_json::json!({"child": true});
    // every graph on <= 3 programs with out-degree <= 1 (target or leaf), every construct on the edges (<= 3 edges)
    for n in 1..=3usize {
        // succ[i] in 0..n (a program) or n.. (a leaf kind)
        let choices = n + leafs.len();
        let total = choices.pow(n as u32);
        for code in 0..total {
            let mut succ = Vec::new();
            let mut c0 = code;
            for _ in 0..n {
                succ.push(c0 % choices);
                c0 /= choices;
            }
            let nedges = succ.iter().filter(|s| **s < n).count();
            let kinds_total = NEDGE.pow(nedges as u32);
            for kc in 0..kinds_total {
                // every one-edge labelling; two- and three-edge labellings are sampled (16^3 labellings per graph, one child process each)
                let rate = match (nedges, cx.thorough) {
                    (2, false) => 15,
                    (2, true) => 3,
                    (_, false) => 250,
                    (_, true) => 40,
                };
                if nedges >= 2 && cx.rng.below(rate) != 0 {
                    continue;
                }
                let mut kc0 = kc;
                let mut c = cx.case(id("p1"));
                for i in 0..n {
                    let body = if succ[i] < n {
                        let k = kc0 % NEDGE;
                        kc0 /= NEDGE;
                        edge(k, names[succ[i]])
                    } else {
                        leafs[succ[i] - n].clone()
                    };
                    c.progs.insert(names[i].to_string(), body);
                }
                c.bind.insert("v".into(), V::Int(7));
                c.bind.insert("zero".into(), V::Int(0));
                c.forms = forms(&["bound", "thread"]);
                c.extra = child.clone();
                // every edge evaluates its target: if the walk from p1 comes back to a program, evaluation must enter the cycle
                let mut at = 0usize;
                let mut seen = vec![false; n];
                let cyclic = loop {
                    if at >= n {
                        break false;
                    }
                    if seen[at] {
                        break true;
                    }
                    seen[at] = true;
                    at = succ[at];
                };
                if cyclic {
                    c.extra = serde_json::json!({"child": true, "law": "cycle"});
                }
                cx.out(c);
            }
        }
    }
    // diamonds and out-degree 2 on up to 4 programs
    for _ in 0..(if cx.thorough { 1500 } else { 150 }) {
        let n = 2 + cx.rng.below(3) as usize;
        let mut c = cx.case(id("p1"));
        for i in 0..n {
            let mk = |cx: &mut Ctx| -> T {
                // acyclic: only later programs are referenced (a cycle with two references per program
                // takes 2^32 steps to reach the depth error through absorbing constructs)
                let s = i + 1 + cx.rng.below((n + 2 - i) as u64) as usize;
                if s < n {
                    edge(cx.rng.below(NEDGE as u64) as usize, names[s])
                } else {
                    lit(V::Int(1))
                }
            };
            let a = mk(cx);
            let b = mk(cx);
            let body = match cx.rng.below(3) {
                0 => a,
                1 => bin("+", a, b),
                _ => tern(bin(">", a, lit(V::Int(0))), b, lit(V::Int(3))),
            };
            c.progs.insert(names[i].to_string(), body);
        }
        c.forms = forms(&["bound"]);
        c.extra = child.clone();
        cx.out(c);
    }
    // chains of length 1..64 through plain references and through each construct
    let th = cx.thorough;
    for len in (1..=64usize).filter(|l| th || *l <= 20 || *l % 4 == 0 || (30..=36).contains(l)) {
        for kind in 0..NEDGE {
            if kind > 0 && !(cx.thorough || len % 8 == 0 || len <= 4 || (15..=18).contains(&len) || (31..=34).contains(&len)) {
                continue;
            }
            let mut c = cx.case(id("q1"));
            for i in 1..=len {
                let body = if i == len { lit(V::Int(0)) } else { edge(kind, &format!("q{}", i + 1)) };
                c.progs.insert(format!("q{}", i), body);
            }
            c.forms = forms(&["bound", "thread"]);
            c.extra = child.clone();
            cx.out(c);
        }
    }
    // loop iterations do not consume the depth budget
    for n in [1usize, 31, 33, 64, 200] {
        let mut c = cx.case(mcall(id("l"), "map", vec![id("x"), bin("+", id("x"), id("p"))]));
        c.bind.insert("l".into(), V::List((0..n as i64).map(V::Int).collect()));
        c.progs.insert("p".into(), bin("+", id("r"), lit(V::Int(1))));
        c.progs.insert("r".into(), lit(V::Int(1)));
        c.forms = forms(&["bound"]);
        cx.out(c);
    }
    // name collisions: one name as type / variable / program / function / macro / map field
    let recording = |v: i64| serde_json::json!({"o":"ok","v":V::Int(v).to_json()});
    let coll_names = ["int", "size", "has", "all", "x", "string", "p"];
    for name in coll_names {
        for as_var in [false, true] {
            for as_prog in [false, true] {
                for as_func in [false, true] {
                    // calls take a variable so that nothing is folded at compile time (the compiler
                    // assumes built-ins are not rebound)
                    let uses: Vec<T> = vec![
                        id(name),
                        call(name, vec![id("s12")]),
                        mcall(T::List(vec![id("one")]), name, vec![id("e"), id("tt")]),
                        mcall(id("sab"), name, vec![]),
                        sel(id("mm"), name),
                        bin("+", T::List(vec![id(name)]), T::List(vec![])),
                    ];
                    for u in uses {
                        let mut c = cx.case(u);
                        if as_var {
                            c.bind.insert(name.to_string(), V::Int(111));
                        }
                        if as_prog {
                            c.progs.insert(name.to_string(), lit(V::Int(222)));
                        }
                        if as_func {
                            c.funcs.insert(name.to_string(), recording(333));
                        }
                        c.bind.insert("mm".into(), V::Map(vec![(name.to_string(), V::Int(444)), ("other".into(), V::Int(1))]));
                        c.bind.insert("s12".into(), V::Str("12".into()));
                        c.bind.insert("sab".into(), V::Str("ab".into()));
                        c.bind.insert("one".into(), V::Int(1));
                        c.bind.insert("tt".into(), V::Bool(true));
                        c.forms = forms(&["bound", "json"]);
                        cx.out(c);
                    }
                }
            }
        }
    }
}

// ---------------------------------------------------------------------------------------------
// C02: parenthesisation and whitespace do not change the result

pub fn parse_eval(cx: &mut Ctx) {
    let g = ExprGen { vars: vec!["a".into(), "b".into(), "c".into(), "d".into()], progs: vec![], funcs: vec![], macros: true, fstrings: false, matches: true };
    for i in 0..cx.n {
        let t = g.expr(&mut cx.rng, 2 + (i % 4) as u32);
        let mut c = cx.case(t);
        bind_random(&mut c, &["a", "b", "c", "d"], &mut cx.rng, 1);
        c.forms = forms(&["bound", "full", "randparen", "ws", "wsparen"]);
        cx.out(c);
    }
    // distinct non-commuting operands under every pair of adjacent operators
    let ops = ["||", "&&", "<", "<=", "==", "!=", ">=", ">", "+", "-", "*", "/", "%"];
    for o1 in ops {
        for o2 in ops {
            for shape in 0..2 {
                let t = if shape == 0 { bin(o2, bin(o1, id("a"), id("b")), id("c")) } else { bin(o1, id("a"), bin(o2, id("b"), id("c"))) };
                let mut c = cx.case(t);
                c.bind.insert("a".into(), V::Int(7));
                c.bind.insert("b".into(), V::Int(3));
                c.bind.insert("c".into(), V::Int(2));
                c.forms = forms(&["bound", "full", "randparen", "ws", "lit"]);
                cx.out(c);
            }
        }
    }
    // runs of unary operators: `--x` is `-(-x)` and `!!x` is `!(!x)`, also where the operator is not an involution on
    // the operand (uint, the least int, bool, text), alone and beside a binary operator of every level
    let operands = [V::Int(5), V::Int(i64::MIN), V::Int(0), V::Uint(1), V::Uint(0), V::Dbl(2.5), V::Dbl(-0.0), V::Bool(true), V::Bool(false), V::Str("abc".into()), V::Str("".into()), V::Null,
                    V::List(vec![]), V::Dur(1_500_000_000)];
    for v in operands.iter() {
        for op in ['-', '!'] {
            for n in 1..=4u32 {
                let shapes: Vec<T> = vec![
                    un(op, n, id("a")),
                    bin("-", id("b"), un(op, n, id("a"))),
                    bin("*", un(op, n, id("a")), id("b")),
                    bin("==", un(op, n, id("a")), un(op, n, T::Paren(Box::new(id("a"))))),
                    bin("||", un(op, n, id("a")), id("b")),
                    un(op, n, idx(T::List(vec![id("a")]), lit(V::Int(0)))),
                ];
                for t in shapes {
                    let mut c = cx.case(t);
                    c.bind.insert("a".into(), v.clone());
                    c.bind.insert("b".into(), V::Int(3));
                    c.forms = forms(&["bound", "full", "randparen", "ws", "lit"]);
                    cx.out(c);
                }
            }
        }
    }
}

// ---------------------------------------------------------------------------------------------
// C01: totality - every built-in on every argument shape, every operator on the boundary pool

pub const FUNC_NAMES: &[&str] = &[
    "contains", "containsI", "size", "sort", "startsWith", "endsWith", "startsWithI", "endsWithI", "matches", "matchCaptures",
    "matchReplaceOnce", "matchReplace", "toLower", "toUpper", "remove", "replace", "rsplit", "split", "splitAt", "trim", "trimStart",
    "trimStartMatches", "trimEnd", "trimEndMatches", "splitWhiteSpace", "abs", "sqrt", "pow", "log", "lg", "ceil", "floor", "round",
    "min", "max", "getDate", "getDayOfMonth", "getDayOfWeek", "getDayOfYear", "getFullYear", "getHours", "getMilliseconds", "getMinutes",
    "getMonth", "getSeconds", "now", "zip", "uomConvert",
    "has", "all", "exists", "exists_one", "filter", "map", "reduce", "coalesce",
    "bool", "int", "uint", "float", "double", "string", "bytes", "type", "timestamp", "duration", "dyn", "null_type",
];

pub fn total(cx: &mut Ctx) {
    let mut pool = boundary_pool();
    pool.extend([V::Str("abc".into()), V::Str("héllo wörld".into()), V::Str("(".into()), V::Str("a*".into()), V::Str("UTC".into()), V::Str("US/Pacific".into()), V::Str("1h".into()), V::Str("2024-02-29T12:00:00Z".into()), V::Str("m".into()), V::Int(10), V::Int(-10), V::Int(64), V::Dbl(2.0), V::Dbl(-2.5), V::List(vec![V::Int(3), V::Int(1)]), V::List(vec![V::Str("a".into()), V::Int(1)])]);
    // long values made of multi-byte characters, at four byte alignments: whatever renders, truncates or slices them
    // (error messages included) meets a character boundary problem at some offset
    for shift in 0..4usize {
        let text = format!("{}{}", "a".repeat(shift), "é𝄞ł".repeat(30));
        pool.push(V::Str(text.clone()));
        pool.push(V::List(vec![V::Str(text.clone()), V::Str("Łódź".repeat(12))]));
        pool.push(V::Map(vec![(text.clone(), V::List(vec![V::Str(text)]))]));
    }
    let mut emit = |cx: &mut Ctx, t: T, binds: Vec<(String, V)>| {
        let mut c = cx.case(t);
        for (k, v) in binds {
            c.bind.insert(k, v);
        }
        c.forms = forms(&["bound", "lit"]);
        cx.out(c);
    };
    for f in FUNC_NAMES {
        emit(cx, call(f, vec![]), vec![]);
        for a in pool.iter() {
            emit(cx, call(f, vec![id("x")]), vec![("x".into(), a.clone())]);
            emit(cx, mcall(id("x"), f, vec![]), vec![("x".into(), a.clone())]);
        }
        let n2 = if cx.thorough { pool.len() * pool.len() } else { 120 };
        for k in 0..n2 {
            let (a, b) = if cx.thorough { (pool[k / pool.len()].clone(), pool[k % pool.len()].clone()) } else { (cx.rng.pick(&pool).clone(), cx.rng.pick(&pool).clone()) };
            emit(cx, call(f, vec![id("x"), id("y")]), vec![("x".into(), a.clone()), ("y".into(), b.clone())]);
            emit(cx, mcall(id("x"), f, vec![id("y")]), vec![("x".into(), a), ("y".into(), b)]);
        }
        // all pairs over the extremes, in every tier
        if !cx.thorough {
            let ext = [V::Int(i64::MAX), V::Int(i64::MIN), V::Int(0), V::Int(-1), V::Uint(u64::MAX), V::Dbl(f64::NAN), V::Dbl(f64::INFINITY), V::Dbl(-1e300), V::Str(String::new()), V::Null];
            for a in ext.iter() {
                for b in ext.iter() {
                    emit(cx, call(f, vec![id("x"), id("y")]), vec![("x".into(), a.clone()), ("y".into(), b.clone())]);
                    emit(cx, mcall(id("x"), f, vec![id("y")]), vec![("x".into(), a.clone()), ("y".into(), b.clone())]);
                }
            }
        }
        let n3 = if cx.thorough { 600 } else { 40 };
        for _ in 0..n3 {
            let vals: Vec<V> = (0..4).map(|_| cx.rng.pick(&pool).clone()).collect();
            let nargs = 2 + cx.rng.below(3) as usize;
            let args: Vec<T> = (0..nargs).map(|i| id(&format!("a{}", i))).collect();
            let binds: Vec<(String, V)> = (0..4).map(|i| (format!("a{}", i), vals[i].clone())).collect();
            if cx.rng.chance(1, 2) {
                emit(cx, call(f, args), binds);
            } else {
                emit(cx, mcall(id("a3"), f, args[..nargs - 1].to_vec()), binds);
            }
        }
    }
    // string functions with fixed receivers and boundary offsets / needles
    for (f, args) in [("splitAt", vec![V::Int(10)]), ("splitAt", vec![V::Int(2)]), ("splitAt", vec![V::Int(-1)]), ("splitAt", vec![V::Uint(u64::MAX)]), ("splitAt", vec![V::Int(1)]),
        ("split", vec![V::Str("".into())]), ("rsplit", vec![V::Str("".into())]), ("replace", vec![V::Str("".into()), V::Str("x".into())]), ("matches", vec![V::Str("(".into())]),
        ("matchReplace", vec![V::Str("(".into()), V::Str("$1".into())]), ("matchCaptures", vec![V::Str("(é)(l+)".into())]), ("trimStartMatches", vec![V::Str("".into())]), ("remove", vec![V::Str("".into())])] {
        for recv in ["héllo", "", "abc", "𝄞𝄞", "aaa"] {
            let argt: Vec<T> = (0..args.len()).map(|i| id(&format!("a{}", i))).collect();
            let mut binds: Vec<(String, V)> = args.iter().enumerate().map(|(i, v)| (format!("a{}", i), v.clone())).collect();
            binds.push(("r".into(), V::Str(recv.into())));
            emit(cx, mcall(id("r"), f, argt), binds);
        }
    }
    // operators on the whole pool
    let ops = ["+", "-", "*", "/", "%", "<", "<=", "==", "!=", ">=", ">", "in", "||", "&&"];
    for op in ops {
        for a in pool.iter() {
            for b in pool.iter() {
                if cx.thorough || cx.rng.below(6) == 0 {
                    emit(cx, bin(op, id("x"), id("y")), vec![("x".into(), a.clone()), ("y".into(), b.clone())]);
                }
            }
        }
    }
    for a in pool.iter() {
        for t in [un('-', 1, id("x")), un('!', 1, id("x")), idx(id("x"), id("x")), sel(id("x"), "a"), tern(id("x"), id("x"), id("x")), T::List(vec![id("x"), id("x")]), T::Map(vec![(id("x"), id("x"))]),
            bin("!=", T::List(vec![id("x")]), T::List(vec![bin("/", lit(V::Int(1)), lit(V::Int(0)))])), T::FStr(vec![Seg::Expr(id("x"))]),
            T::Match { e: Box::new(id("x")), cases: vec![(Pat::Type("int".into()), lit(V::Int(1))), (Pat::Cmp("<".into(), id("x")), lit(V::Int(2))), (Pat::Type("dyn".into()), lit(V::Int(3))), (Pat::Type("type".into()), lit(V::Int(4))), (Pat::Type("null_type".into()), lit(V::Int(5)))] }] {
            emit(cx, t, vec![("x".into(), a.clone())]);
        }
    }
}

// ---------------------------------------------------------------------------------------------
// C14: conversions and f-strings

pub fn conv(cx: &mut Ctx) {
    let convs = ["int", "uint", "double", "float", "string", "bytes", "bool", "type", "dyn", "timestamp", "duration"];
    let mut pool = grid_numeric();
    pool.extend(non_numeric());
    pool.extend(time_edges());
    let strs = ["0", "1", "-1", "+1", " 1", "1 ", "007", "-0", "9223372036854775807", "9223372036854775808", "-9223372036854775808", "-9223372036854775809", "18446744073709551615", "18446744073709551616",
        "1.5", "-1.5", "1e3", "1E3", "1e-3", ".5", "5.", "1.0", "0x10", "1_000", "1,5", "inf", "-inf", "Infinity", "nan", "NaN", "", " ", "abc", "1x", "x1", "١٢٣", "１２", "é", "true", "false", "TRUE", "True", "t", "f", "T", "F", "yes", "no", "0.0",
        "1.7976931348623157e308", "1e309", "4.9e-324", "2.2250738585072014e-308", "0.1", "0.30000000000000004", "9007199254740993", "123456789012345678", "1e22", "1e23", "-0.0", "null"];
    for s in strs {
        pool.push(V::Str(s.to_string()));
    }
    for b in [vec![0xffu8], vec![0xc3, 0xa9], vec![0xc3], vec![0xe2, 0x82], vec![0xed, 0xa0, 0x80], vec![0xf4, 0x90, 0x80, 0x80], vec![0xc0, 0x80], vec![0xf0, 0x9d, 0x84, 0x9e], vec![49, 50], vec![]] {
        pool.push(V::Bytes(b));
    }
    for f in convs {
        for v in pool.iter() {
            // timestamp(null) is the zero-argument form after the dispatcher's null padding (a recorded finding of C15/C16)
            if (f == "timestamp" || f == "duration") && *v == V::Null {
                continue;
            }
            let mut c = cx.case(call(f, vec![id("x")]));
            c.bind.insert("x".into(), v.clone());
            c.forms = forms(&["bound", "lit"]);
            cx.out(c);
            // type(T(x)) == T
            if f != "type" && f != "dyn" {
                let tname = if f == "float" { "double" } else { f };
                let mut c = cx.case(bin("==", call("type", vec![call(f, vec![id("x")])]), id(tname)));
                c.bind.insert("x".into(), v.clone());
                c.forms = forms(&["bound"]);
                cx.out(c);
            }
        }
        // (arity checks belong to the signature table of C15)
    }
    // round-trip laws on random values
    for _ in 0..cx.n {
        let i = rand_i64(&mut cx.rng);
        let u = rand_u64(&mut cx.rng);
        let d = rand_f64(&mut cx.rng);
        let s = rand_string(&mut cx.rng, 8);
        for (t, name, v) in [
            (bin("==", call("int", vec![call("string", vec![id("x")])]), id("x")), "x", V::Int(i)),
            (bin("==", call("uint", vec![call("string", vec![id("x")])]), id("x")), "x", V::Uint(u)),
            (bin("==", call("string", vec![call("bytes", vec![id("x")])]), id("x")), "x", V::Str(s.clone())),
            (call("int", vec![id("x")]), "x", V::Dbl(d)),
            (call("uint", vec![id("x")]), "x", V::Dbl(d)),
            (call("double", vec![id("x")]), "x", V::Int(i)),
            (call("double", vec![id("x")]), "x", V::Uint(u)),
            (call("int", vec![id("x")]), "x", V::Uint(u)),
            (call("uint", vec![id("x")]), "x", V::Int(i)),
            (call("double", vec![id("x")]), "x", V::Str(crate::tree::dbl_literal(d.abs()))),
            (call("int", vec![id("x")]), "x", V::Str(format!("{}", i))),
            (call("uint", vec![id("x")]), "x", V::Str(format!("{}", u))),
        ] {
            let mut c = cx.case(t);
            c.bind.insert(name.into(), v);
            c.forms = forms(&["bound", "lit"]);
            cx.out(c);
        }
        // double(string(d)) == d for finite d: law on the observed string
        if d.is_finite() {
            let mut c = cx.case(call("string", vec![id("x")]));
            c.bind.insert("x".into(), V::Dbl(d));
            c.forms = forms(&["bound", "lit"]);
            c.extra = serde_json::json!({"law": "dblstr"});
            cx.out(c);
            let mut c = cx.case(bin("==", call("double", vec![call("string", vec![id("x")])]), id("x")));
            c.bind.insert("x".into(), V::Dbl(d));
            c.forms = forms(&["bound", "lit"]);
            c.extra = serde_json::json!({"law": "istrue"});
            cx.out(c);
        }
    }
    // f-strings: literal parts (with doubled braces) and embedded expressions of every type
    let embeds: Vec<(V, bool)> = vec![
        (V::Int(-5), true), (V::Uint(7), true), (V::Dbl(1.5), true), (V::Dbl(1e300), true), (V::Str("é'\"{}".into()), true), (V::Bytes(vec![104, 105]), true), (V::Bytes(vec![0xff]), false),
        (V::Bool(true), false), (V::Null, false), (V::List(vec![V::Int(1)]), false), (V::Map(vec![]), false), (V::Ts(1_700_000_000_000_000_000), true), (V::Dur(3_600_000_000_000), true), (V::Type("int".into()), false), (V::Int(i64::MIN), true),
    ];
    let lits = ["", "a", "{", "}", "{}", "x{y}z", " é ", "'", "\"", "\\", "\n", "𝄞"];
    let nf = if cx.thorough { 4000 } else { 500 } + cx.n;
    for _ in 0..nf {
        let nseg = 1 + cx.rng.below(4) as usize;
        let mut segs = Vec::new();
        let mut concat: Option<T> = None;
        let mut c = Case::new(String::new(), lit(V::Null));
        let mut all_conv = true;
        for k in 0..nseg {
            let (seg, part) = if cx.rng.chance(1, 2) {
                let l = cx.rng.pick_str(&lits).to_string();
                if l.is_empty() {
                    continue;
                }
                (Seg::Lit(l.clone()), lit(V::Str(l)))
            } else {
                let (v, convertible) = cx.rng.pick(&embeds).clone();
                all_conv &= convertible;
                let name = format!("e{}", k);
                c.bind.insert(name.clone(), v);
                let e = if cx.rng.chance(1, 4) { bin("+", id(&name), id(&name)) } else { id(&name) };
                (Seg::Expr(e.clone()), call("string", vec![e]))
            };
            segs.push(seg);
            concat = Some(match concat {
                None => part,
                Some(p) => bin("+", p, part),
            });
        }
        if segs.is_empty() || !segs.iter().any(|s| matches!(s, Seg::Expr(_))) {
            continue;
        }
        // the f-string itself (exact where string() is exact) ...
        // ... and it is the concatenation of string(e): same value or the same failure, bound and as literals
        let mut c1 = cx.case(T::FStr(segs.clone()));
        c1.bind = c.bind.clone();
        c1.forms = forms(&["bound", "lit", "alt", "altlit"]);
        c1.extra = serde_json::json!({"same": true, "alt": concat.clone().unwrap().to_json()});
        cx.out(c1);
        // ... and the defining equation, evaluated by the implementation on both sides
        let mut c2 = cx.case(bin("==", T::FStr(segs), concat.unwrap()));
        c2.bind = c.bind.clone();
        c2.forms = forms(&["bound", "lit"]);
        c2.extra = serde_json::json!({"law": if all_conv { "istrue-or-arith-err" } else { "true-or-err" }});
        cx.out(c2);
    }
}

// ---------------------------------------------------------------------------------------------
// C15: string, regex and math built-ins

#[derive(Clone, Debug)]
pub enum Re {
    Chr(char),
    Any,
    Cls(bool, Vec<(char, char)>),
    Cat(Vec<Re>),
    Alt(Vec<Re>),
    Star(Box<Re>),
    Plus(Box<Re>),
    Opt(Box<Re>),
    Grp(Box<Re>),
    Bol,
    Eol,
}

impl Re {
    pub fn to_json(&self) -> serde_json::Value {
        use serde_json::json;
        match self {
            Re::Chr(c) => json!({"k":"chr","c":*c as u32}),
            Re::Any => json!({"k":"any"}),
            Re::Cls(neg, rs) => json!({"k":"cls","neg":neg,"ranges":rs.iter().map(|(a,b)| json!([*a as u32, *b as u32])).collect::<Vec<_>>()}),
            Re::Cat(es) => json!({"k":"cat","es":es.iter().map(|e| e.to_json()).collect::<Vec<_>>()}),
            Re::Alt(es) => json!({"k":"alt","es":es.iter().map(|e| e.to_json()).collect::<Vec<_>>()}),
            Re::Star(e) => json!({"k":"star","e":e.to_json()}),
            Re::Plus(e) => json!({"k":"plus","e":e.to_json()}),
            Re::Opt(e) => json!({"k":"opt","e":e.to_json()}),
            Re::Grp(e) => json!({"k":"grp","e":e.to_json()}),
            Re::Bol => json!({"k":"bol"}),
            Re::Eol => json!({"k":"eol"}),
        }
    }
    pub fn render(&self) -> String {
        match self {
            Re::Chr(c) => {
                if "\\.[]()*+?|^$".contains(*c) { format!("\\{}", c) } else { c.to_string() }
            }
            Re::Any => ".".into(),
            Re::Cls(neg, rs) => format!("[{}{}]", if *neg { "^" } else { "" }, rs.iter().map(|(a, b)| if a == b { a.to_string() } else { format!("{}-{}", a, b) }).collect::<String>()),
            Re::Cat(es) => es.iter().map(|e| match e { Re::Alt(_) => format!("(?:{})", e.render()), _ => e.render() }).collect(),
            Re::Alt(es) => es.iter().map(|e| e.render()).collect::<Vec<_>>().join("|"),
            Re::Star(e) => format!("{}*", Self::atom(e)),
            Re::Plus(e) => format!("{}+", Self::atom(e)),
            Re::Opt(e) => format!("{}?", Self::atom(e)),
            Re::Grp(e) => format!("({})", e.render()),
            Re::Bol => "^".into(),
            Re::Eol => "$".into(),
        }
    }
    fn atom(e: &Re) -> String {
        match e {
            Re::Chr(_) | Re::Any | Re::Cls(..) | Re::Grp(_) => e.render(),
            _ => format!("(?:{})", e.render()),
        }
    }
}

fn rand_re(r: &mut Rng, depth: u32) -> Re {
    let leaf = |r: &mut Rng| match r.below(6) {
        0..=2 => Re::Chr(*r.pick(&['a', 'b', 'c', 'é'])),
        3 => Re::Any,
        4 => Re::Cls(r.chance(1, 4), vec![('a', 'b')]),
        _ => Re::Cls(false, vec![('b', 'b'), ('é', 'é')]),
    };
    if depth == 0 {
        return leaf(r);
    }
    match r.below(9) {
        0 | 1 => leaf(r),
        2 | 3 => Re::Cat((0..2 + r.below(2)).map(|_| rand_re(r, depth - 1)).collect()),
        4 => Re::Alt((0..2).map(|_| rand_re(r, depth - 1)).collect()),
        5 => Re::Star(Box::new(rand_re(r, depth - 1))),
        6 => Re::Plus(Box::new(rand_re(r, depth - 1))),
        7 => Re::Opt(Box::new(rand_re(r, depth - 1))),
        _ => match r.below(3) {
            0 => Re::Cat(vec![Re::Bol, rand_re(r, depth - 1)]),
            1 => Re::Cat(vec![rand_re(r, depth - 1), Re::Eol]),
            _ => Re::Grp(Box::new(rand_re(r, depth - 1))),
        },
    }
}

pub fn strings(cx: &mut Ctx) {
    let alpha = ['a', 'B', 'ß', 'É', 'İ', 'σ', ' ', '\t', ',', '𝄞', 'b', 'é'];
    let needles = ["", "a", "aa", "B", "b", "é", "É", "ß", "ss", " ", ",", "𝄞", "zz", "aB", "i", "İ", "σ", "Σ", "a,", "\u{212a}", "k", "\u{1e9e}", "\u{23a}", "\u{2c65}"];
    let rand_s = |r: &mut Rng, maxlen: u64| -> String {
        let n = r.below(maxlen + 1);
        (0..n).map(|_| if r.chance(1, 3) { 'a' } else { *r.pick(&alpha) }).collect()
    };
    let f1 = ["contains", "containsI", "startsWith", "endsWith", "startsWithI", "endsWithI", "split", "rsplit", "remove", "trimStartMatches", "trimEndMatches"];
    let f0 = ["trim", "trimStart", "trimEnd", "splitWhiteSpace", "toLower", "toUpper"];
    // short strings: all strings of length <= 2 over the alphabet, sampled above; each needle; each function
    let mut shorts: Vec<String> = vec![String::new()];
    for a in alpha {
        shorts.push(a.to_string());
        for b in alpha {
            shorts.push(format!("{}{}", a, b));
        }
    }
    for _ in 0..(if cx.thorough { 3000 } else { 150 }) {
        shorts.push(rand_s(&mut cx.rng, 4));
        let k = cx.rng.below(3) + 1;
        shorts.push("aa".repeat(k as usize) + if cx.rng.chance(1, 2) { "a" } else { "" });
        shorts.push(format!("{}{}{}", cx.rng.pick_str(&[" ", "\t ", "\n", ""]), rand_s(&mut cx.rng, 3), cx.rng.pick_str(&[" ", " \t", "\u{a0}", ""])));
    }
    for s in shorts.iter() {
        for f in f0 {
            let mut c = cx.case(mcall(id("s"), f, vec![]));
            c.bind.insert("s".into(), V::Str(s.clone()));
            c.forms = forms(&["bound", "lit"]);
            cx.out(c);
        }
        for f in f1 {
            let picks = if cx.thorough { needles.len() } else { 3 };
            for k in 0..picks {
                let n = if cx.thorough { needles[k] } else { cx.rng.pick_str(&needles) };
                let mut c = cx.case(mcall(id("s"), f, vec![id("n")]));
                c.bind.insert("s".into(), V::Str(s.clone()));
                c.bind.insert("n".into(), V::Str(n.to_string()));
                c.forms = forms(&["bound", "lit"]);
                cx.out(c);
            }
        }
        // replace, splitAt
        let n = cx.rng.pick_str(&needles);
        let to = cx.rng.pick_str(&needles);
        let mut c = cx.case(mcall(id("s"), "replace", vec![id("n"), id("t")]));
        c.bind.insert("s".into(), V::Str(s.clone()));
        c.bind.insert("n".into(), V::Str(n.to_string()));
        c.bind.insert("t".into(), V::Str(to.to_string()));
        c.forms = forms(&["bound", "lit"]);
        cx.out(c);
        for at in [-1i64, 0, 1, 2, 3, 4, 5, 9, i64::MAX] {
            let mut c = cx.case(mcall(id("s"), "splitAt", vec![id("i")]));
            c.bind.insert("s".into(), V::Str(s.clone()));
            c.bind.insert("i".into(), V::Int(at));
            c.forms = forms(&["bound", "lit"]);
            cx.out(c);
        }
    }
    // case-insensitive search where the two cases of a character differ in UTF-8 length
    for (a, b) in [("k", "\u{212a}"), ("\u{212a}", "k"), ("ß", "\u{1e9e}"), ("\u{1e9e}", "ß"), ("\u{23a}", "\u{2c65}"), ("\u{2c65}", "\u{23a}"), ("xk", "\u{212a}"), ("k\u{212a}k", "\u{212a}k")] {
        for f in ["containsI", "startsWithI", "endsWithI", "contains"] {
            let mut c = cx.case(mcall(id("s"), f, vec![id("n")]));
            c.bind.insert("s".into(), V::Str(a.to_string()));
            c.bind.insert("n".into(), V::Str(b.to_string()));
            c.forms = forms(&["bound", "lit"]);
            cx.out(c);
        }
    }
    // integer bases with exponents that are not a number or negative
    for base in [V::Int(0), V::Int(1), V::Int(-1), V::Int(2), V::Uint(0), V::Uint(1), V::Uint(3)] {
        for e in [f64::NAN, f64::NEG_INFINITY, -0.5, -1.0, -1e300] {
            let mut c = cx.case(call("pow", vec![id("x"), id("e")]));
            c.bind.insert("x".into(), base.clone());
            c.bind.insert("e".into(), V::Dbl(e));
            c.forms = forms(&["bound", "lit"]);
            cx.out(c);
        }
    }
    // all strings of length <= 5 over {a, b} x all needles of length 1..3 over {a, b}: occurrences that overlap, that touch,
    // and that only come into being when another one is taken out ('aabb' without 'ab')
    let mut ab: Vec<String> = vec![String::new()];
    for len in 1..=5usize {
        for code in 0..(1u32 << len) {
            ab.push((0..len).map(|i| if code >> i & 1 == 1 { 'b' } else { 'a' }).collect());
        }
    }
    for s in ab.iter() {
        for n in ab.iter().filter(|n| !n.is_empty() && n.len() <= 3) {
            if !cx.thorough && s.len() == 5 && cx.rng.below(3) != 0 {
                continue;
            }
            for f in ["remove", "split", "rsplit", "contains"] {
                let mut c = cx.case(mcall(id("s"), f, vec![id("n")]));
                c.bind.insert("s".into(), V::Str(s.clone()));
                c.bind.insert("n".into(), V::Str(n.clone()));
                c.forms = forms(&["bound"]);
                cx.out(c);
            }
            let mut c = cx.case(mcall(id("s"), "replace", vec![id("n"), lit(V::Str("b".into()))]));
            c.bind.insert("s".into(), V::Str(s.clone()));
            c.bind.insert("n".into(), V::Str(n.clone()));
            c.forms = forms(&["bound"]);
            cx.out(c);
        }
    }
    // laws evaluated by the implementation on longer random strings
    for _ in 0..cx.n {
        let s = rand_s(&mut cx.rng, 40);
        let n = if cx.rng.chance(1, 2) { rand_s(&mut cx.rng, 2) } else { cx.rng.pick_str(&needles).to_string() };
        if n.is_empty() {
            continue;
        }
        let laws: Vec<T> = vec![
            // join(split) == s   (join written as a reduce)
            bin("==", mcall(mcall(id("s"), "split", vec![id("n")]), "reduce", vec![id("acc"), id("p"), tern(bin("==", id("acc"), lit(V::Null)), id("p"), bin("+", bin("+", id("acc"), id("n")), id("p"))), lit(V::Null)]), id("s")),
            // no piece of split contains the delimiter
            mcall(mcall(id("s"), "split", vec![id("n")]), "all", vec![id("p"), un('!', 1, mcall(id("p"), "contains", vec![id("n")]))]),
            bin("==", mcall(id("s"), "replace", vec![id("n"), id("n")]), id("s")),
            bin("==", mcall(id("s"), "contains", vec![id("n")]), bin("in", id("n"), id("s"))),
            bin("==", mcall(mcall(id("s"), "trim", vec![]), "trim", vec![]), mcall(id("s"), "trim", vec![])),
            bin("==", bin("+", id("n"), id("s")), bin("+", id("n"), id("s"))),
            mcall(bin("+", id("n"), id("s")), "startsWith", vec![id("n")]),
            mcall(bin("+", id("s"), id("n")), "endsWith", vec![id("n")]),
            un('!', 1, mcall(mcall(id("s"), "remove", vec![id("n")]), "contains", vec![id("n")])),
        ];
        for (k, t) in laws.into_iter().enumerate() {
            let mut c = cx.case(t);
            c.bind.insert("s".into(), V::Str(s.clone()));
            c.bind.insert("n".into(), V::Str(n.clone()));
            c.forms = forms(&["bound"]);
            // remove can re-create an occurrence ("aab".remove("ab") = "a" is fine, "aabb".remove("ab") = "ab"): not a law
            if k != 8 {
                c.extra = serde_json::json!({"law": "istrue"});
            }
            cx.out(c);
        }
    }
    // regular expressions from the subset grammar
    let nre = if cx.thorough { 6000 } else { 500 } + cx.n;
    for _ in 0..nre {
        let rdepth = 1 + cx.rng.below(3) as u32;
        let re = rand_re(&mut cx.rng, rdepth);
        let pat = re.render();
        let s: String = (0..cx.rng.below(6)).map(|_| *cx.rng.pick(&['a', 'b', 'c', 'é', '\n'])).collect();
        let mut c = cx.case(mcall(id("s"), "matches", vec![id("p")]));
        c.bind.insert("s".into(), V::Str(s.clone()));
        c.bind.insert("p".into(), V::Str(pat.clone()));
        c.forms = forms(&["bound", "lit"]);
        c.extra = serde_json::json!({"law": "rematch", "re": re.to_json()});
        cx.out(c);
        let mut c = cx.case(mcall(id("s"), "matchCaptures", vec![id("p")]));
        c.bind.insert("s".into(), V::Str(s.clone()));
        c.bind.insert("p".into(), V::Str(pat.clone()));
        c.forms = forms(&["bound"]);
        c.extra = serde_json::json!({"law": "recapture", "re": re.to_json()});
        cx.out(c);
        let mut c = cx.case(bin("==", mcall(id("s"), "matchReplace", vec![id("p"), lit(V::Str("$0".into()))]), id("s")));
        c.bind.insert("s".into(), V::Str(s.clone()));
        c.bind.insert("p".into(), V::Str(pat.clone()));
        c.forms = forms(&["bound"]);
        c.extra = serde_json::json!({"law": "istrue"});
        cx.out(c);
        let mut c = cx.case(bin("==", mcall(id("s"), "matchReplaceOnce", vec![id("p"), lit(V::Str("$0".into()))]), id("s")));
        c.bind.insert("s".into(), V::Str(s));
        c.bind.insert("p".into(), V::Str(pat));
        c.forms = forms(&["bound"]);
        c.extra = serde_json::json!({"law": "istrue"});
        cx.out(c);
    }
    for bad in ["(", ")", "[", "*", "+a", "a{2,1}", "(?P<x", "\\", "[z-a]", "(?z)", "a{99999999999}"] {
        for f in ["matches", "matchCaptures"] {
            let mut c = cx.case(mcall(lit(V::Str("abc".into())), f, vec![id("p")]));
            c.bind.insert("p".into(), V::Str(bad.to_string()));
            c.forms = forms(&["bound", "lit"]);
            c.extra = serde_json::json!({"law": "reerr"});
            cx.out(c);
        }
        let mut c = cx.case(mcall(lit(V::Str("abc".into())), "matchReplace", vec![id("p"), lit(V::Str("x".into()))]));
        c.bind.insert("p".into(), V::Str(bad.to_string()));
        c.forms = forms(&["bound"]);
        c.extra = serde_json::json!({"law": "reerr"});
        cx.out(c);
    }
    // math on the boundary grid
    let grid = grid_numeric();
    for f in ["abs", "sqrt", "log", "lg", "ceil", "floor", "round"] {
        for v in grid.iter() {
            for t in [call(f, vec![id("x")]), mcall(id("x"), f, vec![])] {
                let mut c = cx.case(t);
                c.bind.insert("x".into(), v.clone());
                c.forms = forms(&["bound", "lit"]);
                cx.out(c);
            }
        }
    }
    let smalls: Vec<V> = vec![V::Int(0), V::Int(1), V::Int(-1), V::Int(2), V::Int(-2), V::Int(3), V::Int(10), V::Int(-10), V::Int(62), V::Int(63), V::Int(64), V::Int(65), V::Int(-3), V::Int(i64::MAX), V::Int(i64::MIN), V::Int(3037000499), V::Int(3037000500),
        V::Uint(0), V::Uint(1), V::Uint(2), V::Uint(3), V::Uint(63), V::Uint(64), V::Uint(65), V::Uint(u64::MAX), V::Uint(4294967296), V::Dbl(0.5), V::Dbl(2.0), V::Dbl(-1.0), V::Dbl(f64::NAN)];
    for a in smalls.iter() {
        for b in smalls.iter() {
            let mut c = cx.case(call("pow", vec![id("x"), id("y")]));
            c.bind.insert("x".into(), a.clone());
            c.bind.insert("y".into(), b.clone());
            c.forms = forms(&["bound", "lit"]);
            cx.out(c);
        }
    }
    for _ in 0..cx.n {
        let x = rand_numeric(&mut cx.rng);
        let f = cx.rng.pick_str(&["abs", "sqrt", "log", "lg", "ceil", "floor", "round"]);
        let mut c = cx.case(call(f, vec![id("x")]));
        c.bind.insert("x".into(), x);
        c.forms = forms(&["bound", "lit"]);
        cx.out(c);
        // sqrt(x)*sqrt(x) vs x is not exact; perfect squares are
        let k = cx.rng.below(3037000499) as i64;
        let mut c = cx.case(call("sqrt", vec![id("x")]));
        c.bind.insert("x".into(), V::Int(k * k));
        c.forms = forms(&["bound"]);
        cx.out(c);
    }
    // the signature table: every function, arities 0..3, argument type tuples
    // (null is left out of the table: the dispatcher cannot tell an explicit null from a missing argument,
    //  which is demonstrated once below and recorded as a finding)
    let tvals: Vec<V> = vec![V::Int(1), V::Uint(1), V::Dbl(1.0), V::Str("a".into()), V::Bool(true), V::List(vec![]), V::Bytes(vec![97])];
    for t in [mcall(lit(V::Str("abc".into())), "contains", vec![lit(V::Str("a".into())), lit(V::Null)]), mcall(lit(V::Null), "size", vec![lit(V::Str("a".into()))]), call("abs", vec![lit(V::Int(-1)), lit(V::Null)])] {
        let mut c = cx.case(t);
        c.forms = forms(&["bound"]);
        cx.out(c);
    }
    let mut names: Vec<&str> = vec!["contains", "containsI", "startsWith", "endsWith", "startsWithI", "endsWithI", "split", "rsplit", "replace", "remove", "trim", "trimStart", "trimEnd", "trimStartMatches", "trimEndMatches", "splitWhiteSpace", "toLower", "toUpper", "splitAt", "matches", "matchCaptures", "matchReplace", "matchReplaceOnce"];
    names.extend(["abs", "sqrt", "log", "lg", "ceil", "floor", "round", "pow", "size"]);
    for f in names {
        for recv in tvals.iter() {
            for nargs in 0..=3usize {
                let reps = if nargs == 0 { 1 } else if cx.thorough { 24 } else { 4 };
                for _ in 0..reps {
                    let args: Vec<T> = (0..nargs).map(|i| id(&format!("a{}", i))).collect();
                    let mut c = cx.case(mcall(id("r"), f, args));
                    c.bind.insert("r".into(), recv.clone());
                    for i in 0..nargs {
                        c.bind.insert(format!("a{}", i), cx.rng.pick(&tvals).clone());
                    }
                    c.forms = forms(&["bound", "lit"]);
                    cx.out(c);
                }
            }
        }
    }
}

// ---------------------------------------------------------------------------------------------
// C16: time arithmetic, calendar accessors, zones, units

fn ts_from_civil(y: i64, m: i64, d: i64, h: i64, mi: i64, s: i64, ms: i64) -> V {
    // days from civil (Hinnant), independent of chrono
    let yy = if m <= 2 { y - 1 } else { y };
    let era = if yy >= 0 { yy } else { yy - 399 } / 400;
    let yoe = yy - era * 400;
    let doy = (153 * (if m > 2 { m - 3 } else { m + 9 }) + 2) / 5 + d - 1;
    let doe = yoe * 365 + yoe / 4 - yoe / 100 + doy;
    let days = era * 146097 + doe - 719468;
    V::Ts(((days * 86400 + h * 3600 + mi * 60 + s) as i128) * 1_000_000_000 + ms as i128 * 1_000_000)
}

pub const ZONES: &[&str] = &["UTC", "US/Pacific", "America/New_York", "Europe/London", "Europe/Berlin", "Asia/Kolkata", "Asia/Kathmandu", "Australia/Lord_Howe", "Pacific/Chatham", "Pacific/Kiritimati",
    "America/St_Johns", "Asia/Tokyo", "Africa/Cairo", "America/Sao_Paulo", "Pacific/Apia", "Etc/GMT+12", "Europe/Moscow", "Asia/Tehran"];
const BAD_ZONES: &[&str] = &["", "Mars/Olympus", "utc ", "US/Pacifik", "+01:00", "Europe", "Z"];
const ACCESSORS: &[&str] = &["getFullYear", "getMonth", "getDate", "getDayOfMonth", "getDayOfYear", "getDayOfWeek", "getHours", "getMinutes", "getSeconds", "getMilliseconds"];

pub fn time(cx: &mut Ctx) {
    let mut instants: Vec<V> = vec![V::Ts(0), V::Ts(-1), V::Ts(1), V::Ts(-1_000_000), V::Ts(999_000_000), V::Ts(TS_MIN), V::Ts(TS_MAX)];
    for (y, m, d) in [(-1i64, 12i64, 31i64), (0, 1, 1), (0, 2, 29), (1, 1, 1), (1, 12, 31), (1582, 10, 10), (1600, 2, 29), (1900, 2, 28), (1900, 3, 1), (1969, 12, 31), (1970, 1, 1), (1999, 12, 31), (2000, 1, 1), (2000, 2, 29), (2000, 12, 31),
        (2023, 12, 31), (2024, 1, 1), (2024, 2, 28), (2024, 2, 29), (2024, 3, 1), (2024, 12, 31), (2025, 6, 15), (9999, 12, 31), (10000, 1, 1), (2024, 3, 10), (2024, 11, 3), (2024, 3, 31), (2024, 10, 27)] {
        instants.push(ts_from_civil(y, m, d, 0, 0, 0, 0));
        instants.push(ts_from_civil(y, m, d, 23, 59, 59, 999));
        instants.push(ts_from_civil(y, m, d, 12, 30, 15, 250));
    }
    // one instant per weekday
    for k in 0..7 {
        instants.push(ts_from_civil(2024, 9, 15 + k, 6, 0, 0, 0));
    }
    for _ in 0..cx.n {
        instants.push(rand_ts(&mut cx.rng));
        // within the window where zone offsets are compared (1985..2026)
        instants.push(V::Ts(cx.rng.range(473385600, 1767225600) as i128 * 1_000_000_000 + cx.rng.below(1000) as i128 * 1_000_000));
    }
    for t in instants.iter() {
        for f in ACCESSORS {
            let mut c = cx.case(mcall(id("t"), f, vec![]));
            c.bind.insert("t".into(), t.clone());
            c.forms = forms(&["bound"]);
            cx.out(c);
            let mut c = cx.case(mcall(id("t"), f, vec![lit(V::Str("UTC".into()))]));
            c.bind.insert("t".into(), t.clone());
            c.forms = forms(&["bound"]);
            cx.out(c);
        }
        // zones: the driver adds the zone's offset at that instant from the system database
        let nz = if cx.thorough { 6 } else { 2 };
        for _ in 0..nz {
            let z = cx.rng.pick_str(ZONES);
            let f = cx.rng.pick_str(ACCESSORS);
            let mut c = cx.case(mcall(id("t"), f, vec![id("z")]));
            c.bind.insert("t".into(), t.clone());
            c.bind.insert("z".into(), V::Str(z.to_string()));
            c.forms = forms(&["bound"]);
            c.extra = serde_json::json!({"zone": z});
            cx.out(c);
        }
        let facc = cx.rng.pick_str(ACCESSORS);
        let mut c = cx.case(mcall(id("t"), facc, vec![id("z")]));
        c.bind.insert("t".into(), t.clone());
        c.bind.insert("z".into(), V::Str(cx.rng.pick_str(BAD_ZONES).to_string()));
        c.forms = forms(&["bound"]);
        c.extra = serde_json::json!({"law": "reerr"});
        cx.out(c);
    }
    // DST transitions of two zones, +-1 s (2024): US/Pacific 2024-03-10T10:00:00Z and 2024-11-03T09:00:00Z; Europe/Berlin 2024-03-31T01:00:00Z, 2024-10-27T01:00:00Z
    for (z, secs) in [("US/Pacific", 1710064800i64), ("US/Pacific", 1730624400), ("Europe/Berlin", 1711846800), ("Europe/Berlin", 1729990800), ("Australia/Lord_Howe", 1712415600), ("America/St_Johns", 1710048600)] {
        for d in [-1i64, 0, 1] {
            for f in ["getHours", "getMinutes", "getDate", "getDayOfWeek"] {
                let mut c = cx.case(mcall(id("t"), f, vec![id("z")]));
                c.bind.insert("t".into(), V::Ts((secs + d) as i128 * 1_000_000_000));
                c.bind.insert("z".into(), V::Str(z.to_string()));
                c.forms = forms(&["bound"]);
                c.extra = serde_json::json!({"zone": z});
                cx.out(c);
            }
        }
    }
    // durations
    let mut durs: Vec<V> = vec![V::Dur(0), V::Dur(1), V::Dur(-1), V::Dur(999_999), V::Dur(1_000_000), V::Dur(-1_500_000_000), V::Dur(1_500_000_000), V::Dur(3_599_999_000_000), V::Dur(3_600_000_000_000), V::Dur(-3_600_000_000_001),
        V::Dur(90_061_001_000_000), V::Dur(-90_061_001_000_000), V::Dur(i64::MAX as i128 * 1_000_000), V::Dur(-(i64::MAX as i128) * 1_000_000), V::Dur(59_999_000_000), V::Dur(60_000_000_000)];
    for _ in 0..cx.n {
        durs.push(rand_dur(&mut cx.rng));
    }
    for d in durs.iter() {
        for f in ["getHours", "getMinutes", "getSeconds", "getMilliseconds", "getDate"] {
            let mut c = cx.case(mcall(id("d"), f, vec![]));
            c.bind.insert("d".into(), d.clone());
            c.forms = forms(&["bound"]);
            cx.out(c);
        }
    }
    // arithmetic laws and ranges (decided exactly by the specification)
    for _ in 0..(cx.n * 2 + 200) {
        let t1 = rand_ts(&mut cx.rng);
        let t2 = rand_ts(&mut cx.rng);
        let d1 = rand_dur(&mut cx.rng);
        let d2 = rand_dur(&mut cx.rng);
        for t in [
            bin("==", bin("-", bin("+", id("t1"), id("d1")), id("d1")), id("t1")),
            bin("==", bin("+", bin("-", id("t1"), id("t2")), id("t2")), id("t1")),
            bin("==", bin("-", bin("+", id("d1"), id("d2")), id("d2")), id("d1")),
            bin("<", id("t1"), id("t2")),
            bin("<=", id("d1"), id("d2")),
            bin("+", id("t1"), id("d1")),
            bin("-", id("t1"), id("t2")),
            bin("+", id("d1"), id("t1")),
            bin("-", id("d1"), id("d2")),
        ] {
            let mut c = cx.case(t);
            c.bind.insert("t1".into(), t1.clone());
            c.bind.insert("t2".into(), t2.clone());
            c.bind.insert("d1".into(), d1.clone());
            c.bind.insert("d2".into(), d2.clone());
            c.forms = forms(&["bound"]);
            cx.out(c);
        }
    }
    // timestamp() / duration() constructors
    for s in ["2024-02-29T12:34:56Z", "2024-02-29T12:34:56.789Z", "2024-02-29T12:34:56+05:30", "2024-02-29t12:34:56z", "1970-01-01T00:00:00Z", "0001-01-01T00:00:00Z", "9999-12-31T23:59:59.999999999Z", "2023-02-29T00:00:00Z", "2024-13-01T00:00:00Z",
        "2024-02-29T24:00:00Z", "2024-02-29 12:34:56Z", "2024-02-29", "abc", "", "2024-02-29T12:34:56", "2024-02-29T12:34:56-23:59", "1969-12-31T23:59:59.5Z"] {
        let mut c = cx.case(call("timestamp", vec![id("s")]));
        c.bind.insert("s".into(), V::Str(s.to_string()));
        c.forms = forms(&["bound", "lit"]);
        cx.out(c);
        let mut c = cx.case(mcall(call("timestamp", vec![id("s")]), "getFullYear", vec![]));
        c.bind.insert("s".into(), V::Str(s.to_string()));
        c.forms = forms(&["bound"]);
        cx.out(c);
    }
    for v in [V::Int(0), V::Int(-1), V::Int(1_700_000_000), V::Int(253402300799), V::Int(253402300800), V::Int(-62135596800), V::Int(-62135596801), V::Int(8210266876799), V::Int(8210266876800), V::Int(-8334601228800), V::Int(-8334601228801), V::Int(i64::MAX), V::Int(i64::MIN), V::Uint(5), V::Uint(u64::MAX), V::Dbl(1.0), V::Bool(true)] {
        for f in ["timestamp", "duration"] {
            let mut c = cx.case(call(f, vec![id("x")]));
            c.bind.insert("x".into(), v.clone());
            c.forms = forms(&["bound", "lit"]);
            cx.out(c);
        }
    }
    for (a, b) in [(0i64, 0i64), (1, 500_000_000), (-1, 500_000_000), (5, 999_999_999), (5, 1_000_000_000), (5, -1), (i64::MAX / 1000, 0), (i64::MAX, 0), (i64::MIN, 0)] {
        let mut c = cx.case(call("duration", vec![id("a"), id("b")]));
        c.bind.insert("a".into(), V::Int(a));
        c.bind.insert("b".into(), V::Int(b));
        c.forms = forms(&["bound", "lit"]);
        cx.out(c);
    }
    // units: agreement with the exact definitions, identity, inverse, transitivity, failures
    let units: Vec<(&str, &str)> = vec![("kg", "kg"), ("g", "grams"), ("mg", "mg"), ("lb", "lbs"), ("oz", "ounce"), ("stone", "st"), ("ton", "tonne"), ("l", "liters"), ("ml", "ml"), ("gal", "gallon"), ("qt", "quart"), ("pt", "pints"),
        ("cup", "cups"), ("m3", "m3"), ("ft3", "cu ft"), ("mps", "m/s"), ("kph", "km/h"), ("mph", "mph"), ("kn", "knots"), ("fps", "ft/s")];
    let cat = |k: &str| match k { "kg" | "g" | "mg" | "lb" | "oz" | "stone" | "ton" => 0, "mps" | "kph" | "mph" | "kn" | "fps" => 2, _ => 1 };
    for (ka, sa) in units.iter() {
        for (kb, sb) in units.iter() {
            let xs: Vec<V> = vec![V::Dbl(1.0), V::Int(3), V::Uint(1000), V::Dbl(cx.rng.range(1, 100000) as f64 / 7.0), V::Dbl(-2.5), V::Dbl(1e-9), V::Dbl(1e12)];
            for x in xs.iter().take(if cx.thorough { 7 } else { 3 }) {
                let mut c = cx.case(call("uomConvert", vec![id("x"), id("a"), id("b")]));
                c.bind.insert("x".into(), x.clone());
                c.bind.insert("a".into(), V::Str(sa.to_string()));
                c.bind.insert("b".into(), V::Str(sb.to_string()));
                c.forms = forms(&["bound"]);
                c.extra = if cat(ka) == cat(kb) { serde_json::json!({"law":"uom","ua":ka,"ub":kb}) } else { serde_json::json!({"law":"reerr"}) };
                cx.out(c);
            }
            if cat(ka) == cat(kb) {
                // inverse within tolerance, evaluated by the implementation
                let t = bin("<=", call("abs", vec![bin("-", call("uomConvert", vec![call("uomConvert", vec![id("x"), id("a"), id("b")]), id("b"), id("a")]), id("x"))]), bin("*", lit(V::Dbl(1e-9)), call("abs", vec![id("x")])));
                let mut c = cx.case(t);
                c.bind.insert("x".into(), V::Dbl(cx.rng.range(1, 100000) as f64 / 3.0));
                c.bind.insert("a".into(), V::Str(sa.to_string()));
                c.bind.insert("b".into(), V::Str(sb.to_string()));
                c.forms = forms(&["bound"]);
                c.extra = serde_json::json!({"law":"istrue"});
                cx.out(c);
            }
        }
    }
    for (x, a, b, want) in [(100.0, "c", "f", 212.0), (0.0, "celsius", "K", 273.15), (-40.0, "F", "C", -40.0), (32.0, "f", "c", 0.0), (300.0, "k", "k", 300.0), (0.0, "k", "f", -459.67)] {
        let t = bin("<=", call("abs", vec![bin("-", call("uomConvert", vec![lit(V::Dbl(x)), lit(V::Str(a.into())), lit(V::Str(b.into()))]), lit(V::Dbl(want)))]), lit(V::Dbl(1e-9)));
        let mut c = cx.case(t);
        c.forms = forms(&["bound"]);
        c.extra = serde_json::json!({"law":"istrue"});
        cx.out(c);
    }
    for (a, b) in [("kg", "parsec"), ("", "kg"), ("kg", "c"), ("furlong", "m/s"), ("c", "mph"),
                   // an unknown unit is unknown also when it is asked for twice
                   ("lightyear", "lightyear"), ("parsec", "parsec"), ("", ""), ("nosuchunit", "NoSuchUnit")] {
        let mut c = cx.case(call("uomConvert", vec![lit(V::Dbl(1.0)), lit(V::Str(a.into())), lit(V::Str(b.into()))]));
        c.forms = forms(&["bound"]);
        c.extra = serde_json::json!({"law":"reerr"});
        cx.out(c);
    }
}
