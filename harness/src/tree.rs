//! Abstract expression trees (the `Tree` of DESIGN.md §3.3), their JSON form, and rendering to
//! CEL source text.  Rendering is the only thing the harness is trusted for here; it is checked
//! by C02 itself (Parse(tokens(render t)) = t).
use crate::rng::Rng;
use crate::val::{cps, uncps, V};
use serde_json::{json, Value as J};

#[derive(Clone, Debug, PartialEq)]
pub enum Seg {
    Lit(String),
    Expr(T),
}

#[derive(Clone, Debug, PartialEq)]
pub enum Pat {
    Any,
    Type(String),
    Cmp(String, T),
}

#[derive(Clone, Debug, PartialEq)]
pub enum T {
    Lit(V),
    Id(String),
    Un { op: char, n: u32, e: Box<T> },
    Bin { op: String, l: Box<T>, r: Box<T> },
    Tern { c: Box<T>, a: Box<T>, b: Box<T> },
    List(Vec<T>),
    Map(Vec<(T, T)>),
    Sel { e: Box<T>, f: String },
    Idx { e: Box<T>, i: Box<T> },
    Call { f: String, args: Vec<T> },
    MCall { r: Box<T>, f: String, args: Vec<T> },
    FStr(Vec<Seg>),
    Match { e: Box<T>, cases: Vec<(Pat, T)> },
    Paren(Box<T>),
}

pub fn lit(v: V) -> T {
    T::Lit(v)
}
pub fn id(n: &str) -> T {
    T::Id(n.to_string())
}
pub fn bin(op: &str, l: T, r: T) -> T {
    T::Bin { op: op.to_string(), l: Box::new(l), r: Box::new(r) }
}
pub fn un(op: char, n: u32, e: T) -> T {
    T::Un { op, n, e: Box::new(e) }
}
pub fn tern(c: T, a: T, b: T) -> T {
    T::Tern { c: Box::new(c), a: Box::new(a), b: Box::new(b) }
}
pub fn call(f: &str, args: Vec<T>) -> T {
    T::Call { f: f.to_string(), args }
}
pub fn mcall(r: T, f: &str, args: Vec<T>) -> T {
    T::MCall { r: Box::new(r), f: f.to_string(), args }
}
pub fn sel(e: T, f: &str) -> T {
    T::Sel { e: Box::new(e), f: f.to_string() }
}
pub fn idx(e: T, i: T) -> T {
    T::Idx { e: Box::new(e), i: Box::new(i) }
}

impl Pat {
    pub fn to_json(&self) -> J {
        match self {
            Pat::Any => json!({"pk":"any"}),
            Pat::Type(n) => json!({"pk":"type","n":n}),
            Pat::Cmp(op, v) => json!({"pk":"cmp","op":op,"v":v.to_json()}),
        }
    }
    pub fn from_json(j: &J) -> Option<Pat> {
        Some(match j.get("pk")?.as_str()? {
            "any" => Pat::Any,
            "type" => Pat::Type(j.get("n")?.as_str()?.to_string()),
            "cmp" => Pat::Cmp(j.get("op")?.as_str()?.to_string(), T::from_json(j.get("v")?)?),
            _ => return None,
        })
    }
}

impl T {
    pub fn to_json(&self) -> J {
        match self {
            T::Lit(v) => json!({"k":"lit","v":v.to_json()}),
            T::Id(n) => json!({"k":"id","n":n,"nc":cps(n)}),
            T::Un { op, n, e } => json!({"k":"un","op":op.to_string(),"n":n,"e":e.to_json()}),
            T::Bin { op, l, r } => json!({"k":"bin","op":op,"l":l.to_json(),"r":r.to_json()}),
            T::Tern { c, a, b } => json!({"k":"tern","c":c.to_json(),"a":a.to_json(),"b":b.to_json()}),
            T::List(es) => json!({"k":"list","es":es.iter().map(|e| e.to_json()).collect::<Vec<_>>()}),
            T::Map(kv) => {
                json!({"k":"map","kv":kv.iter().map(|(k,v)| json!([k.to_json(), v.to_json()])).collect::<Vec<_>>()})
            }
            T::Sel { e, f } => json!({"k":"sel","e":e.to_json(),"f":f,"fc":cps(f)}),
            T::Idx { e, i } => json!({"k":"idx","e":e.to_json(),"i":i.to_json()}),
            T::Call { f, args } => {
                json!({"k":"call","f":f,"fc":cps(f),"args":args.iter().map(|e| e.to_json()).collect::<Vec<_>>()})
            }
            T::MCall { r, f, args } => {
                json!({"k":"mcall","r":r.to_json(),"f":f,"fc":cps(f),"args":args.iter().map(|e| e.to_json()).collect::<Vec<_>>()})
            }
            T::FStr(segs) => json!({"k":"fstr","segs":segs.iter().map(|s| match s {
                Seg::Lit(s) => json!({"s":cps(s)}),
                Seg::Expr(e) => json!({"e":e.to_json()}),
            }).collect::<Vec<_>>()}),
            T::Match { e, cases } => {
                json!({"k":"match","e":e.to_json(),"cases":cases.iter().map(|(p,e)| json!({"p":p.to_json(),"e":e.to_json()})).collect::<Vec<_>>()})
            }
            T::Paren(e) => json!({"k":"paren","e":e.to_json()}),
        }
    }

    pub fn from_json(j: &J) -> Option<T> {
        let bx = |k: &str| -> Option<Box<T>> { Some(Box::new(T::from_json(j.get(k)?)?)) };
        let list = |k: &str| -> Option<Vec<T>> { j.get(k)?.as_array()?.iter().map(T::from_json).collect() };
        Some(match j.get("k")?.as_str()? {
            "lit" => T::Lit(V::from_json(j.get("v")?)?),
            "id" => T::Id(j.get("n")?.as_str()?.to_string()),
            "un" => T::Un {
                op: j.get("op")?.as_str()?.chars().next()?,
                n: j.get("n")?.as_u64()? as u32,
                e: bx("e")?,
            },
            "bin" => T::Bin { op: j.get("op")?.as_str()?.to_string(), l: bx("l")?, r: bx("r")? },
            "tern" => T::Tern { c: bx("c")?, a: bx("a")?, b: bx("b")? },
            "list" => T::List(list("es")?),
            "map" => {
                let mut kv = Vec::new();
                for e in j.get("kv")?.as_array()? {
                    let e = e.as_array()?;
                    kv.push((T::from_json(&e[0])?, T::from_json(&e[1])?));
                }
                T::Map(kv)
            }
            "sel" => T::Sel { e: bx("e")?, f: j.get("f")?.as_str()?.to_string() },
            "idx" => T::Idx { e: bx("e")?, i: bx("i")? },
            "call" => T::Call { f: j.get("f")?.as_str()?.to_string(), args: list("args")? },
            "mcall" => T::MCall { r: bx("r")?, f: j.get("f")?.as_str()?.to_string(), args: list("args")? },
            "fstr" => {
                let mut segs = Vec::new();
                for s in j.get("segs")?.as_array()? {
                    if let Some(l) = s.get("s") {
                        segs.push(Seg::Lit(uncps(l)?));
                    } else {
                        segs.push(Seg::Expr(T::from_json(s.get("e")?)?));
                    }
                }
                T::FStr(segs)
            }
            "match" => {
                let mut cases = Vec::new();
                for c in j.get("cases")?.as_array()? {
                    cases.push((Pat::from_json(c.get("p")?)?, T::from_json(c.get("e")?)?));
                }
                T::Match { e: bx("e")?, cases }
            }
            "paren" => T::Paren(bx("e")?),
            _ => return None,
        })
    }

    /// Replace identifiers by literals where `sub` has an expressible value for them.
    pub fn subst(&self, sub: &dyn Fn(&str) -> Option<T>) -> T {
        self.subst_sh(sub, &mut Vec::new())
    }

    fn subst_sh(&self, sub: &dyn Fn(&str) -> Option<T>, shadow: &mut Vec<String>) -> T {
        let mut go = |t: &T, sh: &mut Vec<String>| t.subst_sh(sub, sh);
        match self {
            T::Lit(_) => self.clone(),
            T::Id(n) => {
                if shadow.contains(n) {
                    self.clone()
                } else {
                    sub(n).unwrap_or_else(|| self.clone())
                }
            }
            T::Un { op, n, e } => T::Un { op: *op, n: *n, e: Box::new(go(e, shadow)) },
            T::Bin { op, l, r } => {
                T::Bin { op: op.clone(), l: Box::new(go(l, shadow)), r: Box::new(go(r, shadow)) }
            }
            T::Tern { c, a, b } => T::Tern {
                c: Box::new(go(c, shadow)),
                a: Box::new(go(a, shadow)),
                b: Box::new(go(b, shadow)),
            },
            T::List(es) => T::List(es.iter().map(|e| go(e, shadow)).collect()),
            T::Map(kv) => T::Map(kv.iter().map(|(k, v)| (go(k, shadow), go(v, shadow))).collect()),
            T::Sel { e, f } => T::Sel { e: Box::new(go(e, shadow)), f: f.clone() },
            T::Idx { e, i } => T::Idx { e: Box::new(go(e, shadow)), i: Box::new(go(i, shadow)) },
            T::Call { f, args } => T::Call { f: f.clone(), args: args.iter().map(|e| go(e, shadow)).collect() },
            T::MCall { r, f, args } => {
                let r2 = go(r, shadow);
                let nvars = match f.as_str() {
                    "all" | "exists" | "exists_one" | "filter" | "map" => 1,
                    "reduce" => 2,
                    _ => 0,
                };
                if nvars > 0 && args.len() > nvars && args[..nvars].iter().all(|a| matches!(a, T::Id(_))) {
                    let mut out = Vec::new();
                    let mut pushed = 0;
                    for a in &args[..nvars] {
                        if let T::Id(n) = a {
                            shadow.push(n.clone());
                            pushed += 1;
                        }
                        out.push(a.clone());
                    }
                    let last = args.len() - 1;
                    for (i, a) in args.iter().enumerate().skip(nvars) {
                        if f == "reduce" && i == last {
                            // the seed is evaluated outside the loop
                            let saved: Vec<String> = shadow.drain(shadow.len() - pushed..).collect();
                            out.push(go(a, shadow));
                            shadow.extend(saved);
                        } else {
                            out.push(go(a, shadow));
                        }
                    }
                    for _ in 0..pushed {
                        shadow.pop();
                    }
                    T::MCall { r: Box::new(r2), f: f.clone(), args: out }
                } else {
                    T::MCall { r: Box::new(r2), f: f.clone(), args: args.iter().map(|e| go(e, shadow)).collect() }
                }
            }
            T::FStr(segs) => T::FStr(
                segs.iter()
                    .map(|s| match s {
                        Seg::Lit(_) => s.clone(),
                        Seg::Expr(e) => Seg::Expr(go(e, shadow)),
                    })
                    .collect(),
            ),
            T::Match { e, cases } => T::Match {
                e: Box::new(go(e, shadow)),
                cases: cases
                    .iter()
                    .map(|(p, e)| {
                        (
                            match p {
                                Pat::Cmp(op, v) => Pat::Cmp(op.clone(), go(v, shadow)),
                                o => o.clone(),
                            },
                            go(e, shadow),
                        )
                    })
                    .collect(),
            },
            T::Paren(e) => T::Paren(Box::new(go(e, shadow))),
        }
    }
}

/// Names used as macro loop variables anywhere in the tree (stored programs are evaluated under
/// the bindings of the referencing site, so they see these too).
pub fn loop_vars(t: &T, out: &mut Vec<String>) {
    let mut go = |x: &T, out: &mut Vec<String>| loop_vars(x, out);
    match t {
        T::Lit(_) | T::Id(_) => {}
        T::Un { e, .. } | T::Paren(e) | T::Sel { e, .. } => go(e, out),
        T::Bin { l, r, .. } => {
            go(l, out);
            go(r, out)
        }
        T::Tern { c, a, b } => {
            go(c, out);
            go(a, out);
            go(b, out)
        }
        T::List(es) => es.iter().for_each(|e| go(e, out)),
        T::Map(kv) => kv.iter().for_each(|(k, v)| {
            go(k, out);
            go(v, out)
        }),
        T::Idx { e, i } => {
            go(e, out);
            go(i, out)
        }
        T::Call { args, .. } => args.iter().for_each(|e| go(e, out)),
        T::MCall { r, f, args } => {
            go(r, out);
            let nvars = match f.as_str() {
                "all" | "exists" | "exists_one" | "filter" | "map" => 1,
                "reduce" => 2,
                _ => 0,
            };
            for (i, a) in args.iter().enumerate() {
                if i < nvars {
                    if let T::Id(n) = a {
                        out.push(n.clone());
                        continue;
                    }
                }
                go(a, out);
            }
        }
        T::FStr(segs) => segs.iter().for_each(|s| {
            if let Seg::Expr(e) = s {
                go(e, out)
            }
        }),
        T::Match { e, cases } => {
            go(e, out);
            for (p, e) in cases {
                if let Pat::Cmp(_, v) = p {
                    go(v, out)
                }
                go(e, out)
            }
        }
    }
}

/// Every identifier occurring anywhere in the tree (variables, loop variables, program names).
pub fn ident_names(t: &T, out: &mut Vec<String>) {
    let go = |x: &T, out: &mut Vec<String>| ident_names(x, out);
    match t {
        T::Lit(_) => {}
        T::Id(n) => out.push(n.clone()),
        T::Un { e, .. } | T::Paren(e) | T::Sel { e, .. } => go(e, out),
        T::Bin { l, r, .. } => {
            go(l, out);
            go(r, out)
        }
        T::Tern { c, a, b } => {
            go(c, out);
            go(a, out);
            go(b, out)
        }
        T::List(es) => es.iter().for_each(|e| go(e, out)),
        T::Map(kv) => kv.iter().for_each(|(k, v)| {
            go(k, out);
            go(v, out)
        }),
        T::Idx { e, i } => {
            go(e, out);
            go(i, out)
        }
        T::Call { args, .. } => args.iter().for_each(|e| go(e, out)),
        T::MCall { r, args, .. } => {
            go(r, out);
            args.iter().for_each(|e| go(e, out))
        }
        T::FStr(segs) => segs.iter().for_each(|s| {
            if let Seg::Expr(e) = s {
                go(e, out)
            }
        }),
        T::Match { e, cases } => {
            go(e, out);
            for (p, e) in cases {
                if let Pat::Cmp(_, v) = p {
                    go(v, out)
                }
                go(e, out)
            }
        }
    }
}

/// A value as a literal expression tree, if it has one.
pub fn value_as_tree(v: &V) -> Option<T> {
    Some(match v {
        V::Int(_) | V::Uint(_) | V::Bool(_) | V::Str(_) | V::Bytes(_) | V::Null => T::Lit(v.clone()),
        V::Dbl(f) => {
            if f.is_finite() {
                T::Lit(v.clone())
            } else {
                return None;
            }
        }
        V::List(l) => T::List(l.iter().map(value_as_tree).collect::<Option<Vec<_>>>()?),
        V::Map(kv) => T::Map(
            kv.iter()
                .map(|(k, v)| Some((T::Lit(V::Str(k.clone())), value_as_tree(v)?)))
                .collect::<Option<Vec<_>>>()?,
        ),
        V::Type(n) => match n.as_str() {
            "bool" | "int" | "uint" | "float" | "string" | "bytes" | "type" | "timestamp" | "duration" | "dyn" => T::Id(n.clone()),
            "null" => T::Id("null_type".to_string()),
            _ => return None,
        },
        _ => return None,
    })
}

// ---------------------------------------------------------------------------------------------
// rendering

#[derive(Clone, Copy, PartialEq, Debug)]
pub enum Parens {
    Min,
    Full,
    Random,
}

pub struct Render<'a> {
    pub parens: Parens,
    pub ws: bool, // random whitespace
    pub rng: &'a mut Rng,
    pub quote: char,
}

const L_TERN: u8 = 0;
const L_OR: u8 = 1;
const L_AND: u8 = 2;
const L_REL: u8 = 3;
const L_ADD: u8 = 4;
const L_MUL: u8 = 5;
const L_UN: u8 = 6;
const L_POST: u8 = 7;
const L_PRIM: u8 = 8;

pub fn bin_level(op: &str) -> u8 {
    match op {
        "||" => L_OR,
        "&&" => L_AND,
        "<" | "<=" | "==" | "!=" | ">=" | ">" | "in" => L_REL,
        "+" | "-" => L_ADD,
        "*" | "/" | "%" => L_MUL,
        _ => L_REL,
    }
}

pub fn level(t: &T) -> u8 {
    match t {
        T::Lit(V::Int(i)) if *i < 0 && *i != i64::MIN => L_UN,
        T::Lit(V::Dbl(f)) if f.is_sign_negative() => L_UN,
        T::Lit(_) | T::Id(_) | T::List(_) | T::Map(_) | T::FStr(_) | T::Paren(_) => L_PRIM,
        T::Call { .. } => L_POST,
        T::Un { .. } => L_UN,
        T::Bin { op, .. } => bin_level(op),
        T::Tern { .. } | T::Match { .. } => L_TERN,
        T::Sel { .. } | T::Idx { .. } | T::MCall { .. } => L_POST,
    }
}

pub fn str_literal(s: &str, q: char) -> String {
    let mut o = String::new();
    o.push(q);
    for c in s.chars() {
        match c {
            '\\' => o.push_str("\\\\"),
            '\n' => o.push_str("\\n"),
            '\r' => o.push_str("\\r"),
            '\t' => o.push_str("\\t"),
            c if c == q => {
                o.push('\\');
                o.push(c)
            }
            c if (c as u32) < 0x20 || c as u32 == 0x7f => o.push_str(&format!("\\x{:02x}", c as u32)),
            c => o.push(c),
        }
    }
    o.push(q);
    o
}

pub fn bytes_literal(b: &[u8]) -> String {
    let mut o = String::from("b\"");
    for x in b {
        match *x {
            b'\\' => o.push_str("\\\\"),
            b'"' => o.push_str("\\\""),
            0x20..=0x7e => o.push(*x as char),
            x => o.push_str(&format!("\\x{:02x}", x)),
        }
    }
    o.push('"');
    o
}

pub fn dbl_literal(f: f64) -> String {
    // Rust's shortest round-trip form; make sure it lexes as a float
    let s = format!("{:?}", f);
    if s.contains('.') || s.contains('e') || s.contains('E') {
        s
    } else {
        format!("{}.0", s)
    }
}

pub fn lit_src(v: &V, q: char) -> String {
    match v {
        V::Int(i) => {
            if *i == i64::MIN {
                "(-9223372036854775807 - 1)".to_string()
            } else {
                format!("{}", i)
            }
        }
        V::Uint(u) => format!("{}u", u),
        V::Dbl(f) => dbl_literal(*f),
        V::Bool(b) => format!("{}", b),
        V::Str(s) => str_literal(s, q),
        V::Bytes(b) => bytes_literal(b),
        V::Null => "null".to_string(),
        V::Type(n) => n.clone(),
        other => panic!("no literal form for {:?}", other),
    }
}

impl<'a> Render<'a> {
    fn sp(&mut self, out: &mut String, mandatory: bool) {
        if self.ws {
            let n = self.rng.below(4);
            if n == 0 && mandatory {
                out.push(' ');
            }
            for _ in 0..n {
                out.push(match self.rng.below(8) {
                    0 => '\t',
                    1 => '\n',
                    _ => ' ',
                });
            }
        } else if mandatory {
            out.push(' ');
        }
    }

    fn child(&mut self, t: &T, min: u8, out: &mut String) {
        let need = level(t) < min;
        let extra = match self.parens {
            Parens::Min => false,
            Parens::Full => !matches!(t, T::Paren(_)) && level(t) < L_PRIM,
            Parens::Random => !matches!(t, T::Paren(_)) && self.rng.below(4) == 0,
        };
        if need || extra {
            out.push('(');
            self.sp(out, false);
            self.expr(t, out);
            self.sp(out, false);
            out.push(')');
        } else {
            self.expr(t, out);
        }
    }

    fn args(&mut self, args: &[T], out: &mut String) {
        out.push('(');
        for (i, a) in args.iter().enumerate() {
            if i > 0 {
                out.push(',');
            }
            self.sp(out, false);
            self.child(a, L_TERN, out);
            self.sp(out, false);
        }
        out.push(')');
    }

    pub fn expr(&mut self, t: &T, out: &mut String) {
        match t {
            T::Lit(v) => out.push_str(&lit_src(v, self.quote)),
            T::Id(n) => out.push_str(n),
            T::Un { op, n, e } => {
                for _ in 0..*n {
                    out.push(*op);
                    self.sp(out, false);
                }
                // the operand of a unary run is a Member: anything else needs parentheses,
                // and so does a literal that itself starts with '-'
                self.child(e, L_POST, out);
            }
            T::Bin { op, l, r } => {
                let lv = bin_level(op);
                self.child(l, lv, out);
                self.sp(out, op == "in");
                out.push_str(op);
                self.sp(out, op == "in");
                self.child(r, lv + 1, out);
            }
            T::Tern { c, a, b } => {
                self.child(c, L_OR, out);
                self.sp(out, false);
                out.push('?');
                self.sp(out, false);
                self.child(a, L_OR, out);
                self.sp(out, false);
                out.push(':');
                self.sp(out, false);
                // a match in the else position would swallow nothing, but keep it simple
                if matches!(**b, T::Match { .. }) {
                    self.child(b, L_PRIM, out);
                } else {
                    self.child(b, L_TERN, out);
                }
            }
            T::List(es) => {
                out.push('[');
                for (i, e) in es.iter().enumerate() {
                    if i > 0 {
                        out.push(',');
                    }
                    self.sp(out, false);
                    self.child(e, L_TERN, out);
                    self.sp(out, false);
                }
                out.push(']');
            }
            T::Map(kv) => {
                out.push('{');
                for (i, (k, v)) in kv.iter().enumerate() {
                    if i > 0 {
                        out.push(',');
                    }
                    self.sp(out, false);
                    self.child(k, L_TERN, out);
                    self.sp(out, false);
                    out.push(':');
                    self.sp(out, false);
                    self.child(v, L_TERN, out);
                    self.sp(out, false);
                }
                out.push('}');
            }
            T::Sel { e, f } => {
                self.recv(e, out);
                self.sp(out, false);
                out.push('.');
                self.sp(out, false);
                out.push_str(f);
            }
            T::Idx { e, i } => {
                self.recv(e, out);
                self.sp(out, false);
                out.push('[');
                self.sp(out, false);
                self.child(i, L_TERN, out);
                self.sp(out, false);
                out.push(']');
            }
            T::Call { f, args } => {
                out.push_str(f);
                self.sp(out, false);
                self.args(args, out);
            }
            T::MCall { r, f, args } => {
                self.recv(r, out);
                self.sp(out, false);
                out.push('.');
                self.sp(out, false);
                out.push_str(f);
                self.sp(out, false);
                self.args(args, out);
            }
            T::FStr(segs) => {
                out.push('f');
                out.push('\'');
                for s in segs {
                    match s {
                        Seg::Lit(l) => {
                            let body = str_literal(l, '\'');
                            let body = &body[1..body.len() - 1];
                            out.push_str(&body.replace('{', "{{").replace('}', "}}"));
                        }
                        Seg::Expr(e) => {
                            out.push('{');
                            out.push(' '); // "{{" would be an escaped brace
                            let mut inner = String::new();
                            // embedded expressions must not contain the quote or unbalanced braces
                            let mut r = Render { parens: Parens::Min, ws: false, rng: self.rng, quote: '"' };
                            r.expr(e, &mut inner);
                            out.push_str(&inner);
                            out.push(' ');
                            out.push('}');
                        }
                    }
                }
                out.push('\'');
            }
            T::Match { e, cases } => {
                out.push_str("match");
                self.sp(out, true);
                self.child(e, L_TERN, out);
                self.sp(out, false);
                out.push('{');
                for (i, (p, e)) in cases.iter().enumerate() {
                    if i > 0 {
                        out.push(',');
                    }
                    self.sp(out, false);
                    out.push_str("case");
                    self.sp(out, true);
                    match p {
                        Pat::Any => out.push('_'),
                        Pat::Type(n) => out.push_str(n),
                        Pat::Cmp(op, v) => {
                            // `case int(q)` would read `int` as a type pattern: such values keep their operator
                            let types = ["bool", "int", "uint", "float", "double", "string", "bytes", "type", "timestamp", "duration", "null_type", "dyn"];
                            let leads_with_type = match v {
                                T::Call { f, .. } => types.contains(&f.as_str()),
                                T::Id(n) => types.contains(&n.as_str()),
                                _ => false,
                            };
                            if op != "==" || leads_with_type || self.rng.below(2) == 0 {
                                out.push_str(op);
                                self.sp(out, false);
                            }
                            self.child(v, L_OR, out);
                        }
                    }
                    self.sp(out, false);
                    out.push(':');
                    self.sp(out, false);
                    self.child(e, L_TERN, out);
                    self.sp(out, false);
                }
                out.push('}');
            }
            T::Paren(e) => {
                out.push('(');
                self.sp(out, false);
                self.expr(e, out);
                self.sp(out, false);
                out.push(')');
            }
        }
    }

    fn recv(&mut self, e: &T, out: &mut String) {
        // numeric literals cannot be followed directly by '.'
        let numeric = matches!(e, T::Lit(V::Int(_)) | T::Lit(V::Uint(_)) | T::Lit(V::Dbl(_)));
        if numeric && level(e) >= L_POST {
            out.push('(');
            self.expr(e, out);
            out.push(')');
        } else {
            self.child(e, L_POST, out);
        }
    }
}

pub fn render(t: &T, parens: Parens, ws: bool, rng: &mut Rng) -> String {
    let mut out = String::new();
    let mut r = Render { parens, ws, rng, quote: '"' };
    r.expr(t, &mut out);
    out
}

pub fn render_min(t: &T) -> String {
    let mut rng = Rng::new(0);
    render(t, Parens::Min, false, &mut rng)
}
