#!/usr/bin/env python3
"""Test vectors for spec/Dbl.tla from the hardware's IEEE-754 arithmetic (Python floats):
one JSON object per line, in the value encoding of the specification."""
import json, math, random, struct, sys

def mag(m):
    out = []
    while m > 0:
        out.append(m & 0x7fff); m >>= 15
    return out

def big(n):
    return {"s": (n > 0) - (n < 0), "m": mag(abs(n))}

def enc(f):
    bits = struct.unpack('<Q', struct.pack('<d', f))[0]
    e = (bits >> 52) & 0x7ff
    m = bits & ((1 << 52) - 1)
    if e == 2047 and m:
        return {"neg": False, "e": 2047, "m": [1]}
    return {"neg": bool(bits >> 63), "e": e, "m": mag(m)}

def frombits(b):
    return struct.unpack('<d', struct.pack('<Q', b))[0]

def div(a, b):
    try:
        return a / b
    except ZeroDivisionError:
        if a != a or a == 0: return math.nan
        return math.copysign(math.inf, a) * math.copysign(1.0, b)

def main():
    seed = int(sys.argv[1]); n = int(sys.argv[2])
    rnd = random.Random(seed)
    special = [0.0, -0.0, 1.0, -1.0, 0.5, 1.5, 2.0**52, 2.0**53, 2.0**53 + 2, 2.0**63, 2.0**64, -2.0**63,
               math.inf, -math.inf, math.nan, 5e-324, -5e-324, 2.2250738585072014e-308, 2.225073858507201e-308,
               1.7976931348623157e308, -1.7976931348623157e308, 0.1, 0.2, 0.3, 1e22, 1e23, 3.0, 1/3]
    def pick():
        r = rnd.random()
        if r < 0.3: return rnd.choice(special)
        if r < 0.6: return frombits(rnd.getrandbits(64))
        if r < 0.8:  # near another scale
            return rnd.choice([1, -1]) * rnd.random() * 2.0 ** rnd.randint(-60, 60)
        return float(rnd.randint(-2**54, 2**54))
    for i in range(n):
        a, b = pick(), pick()
        if rnd.random() < 0.15:
            # operands close together / at the subnormal edge
            b = frombits((struct.unpack('<Q', struct.pack('<d', a))[0] + rnd.randint(-3, 3)) & (2**64 - 1))
        rec = {"a": enc(a), "b": enc(b), "add": enc(a + b), "sub": enc(a - b),
               "mul": enc(a * b), "div": enc(div(a, b))}
        rec["cmp"] = "un" if (a != a or b != b) else ("lt" if a < b else "gt" if a > b else "eq")
        k = rnd.choice([rnd.randint(-2**63, 2**64), rnd.getrandbits(rnd.randint(1, 70)) * rnd.choice([1, -1])])
        rec["k"] = big(k); rec["kd"] = enc(float(k))
        if math.isfinite(a):
            rec["trunc"] = big(int(a)); rec["floor"] = big(math.floor(a)); rec["ceil"] = big(math.ceil(a))
            r = abs(a); rr = math.floor(r + 0.5) if r < 2**52 else r
            rec["round"] = big(int(math.copysign(rr, a)))
            s = repr(a)
            # decimal spelling D * 10^E of the shortest repr
            from decimal import Decimal
            d = Decimal(s); sign, digits, exp = d.as_tuple()
            rec["dec"] = {"D": mag(int(''.join(map(str, digits)))), "E": exp}
        print(json.dumps(rec))

main()
