"""Per-property pipelines for bin/check.  Each takes (run, ck) where ck is the bin/check module."""
import json, os


# ---- keys -----------------------------------------------------------------------------------
def vtype(v):
    t = v.get("t")
    if t == "dbl":
        e, m = v.get("e"), v.get("m")
        if e == 2047:
            return "nan" if m else "inf"
        return "dbl"
    return t


def shape(t, bind, progs, depth=4):
    k = t.get("k")
    if depth == 0:
        return "_"
    d = depth - 1
    if k == "lit":
        return vtype(t["v"])
    if k == "id":
        n = t["n"]
        if n in bind:
            return vtype(bind[n])
        if n in progs:
            return "prog"
        return "id:" + n if n in ("int", "uint", "bool", "string", "double", "float", "bytes", "type", "timestamp", "duration", "dyn", "null_type") else "unbound"
    if k == "un":
        return "(%s%d %s)" % (t["op"], t["n"], shape(t["e"], bind, progs, d))
    if k == "bin":
        return "(%s %s %s)" % (t["op"], shape(t["l"], bind, progs, d), shape(t["r"], bind, progs, d))
    if k == "tern":
        return "(?: %s %s %s)" % (shape(t["c"], bind, progs, d), shape(t["a"], bind, progs, d), shape(t["b"], bind, progs, d))
    if k == "list":
        return "[%s]" % " ".join(shape(e, bind, progs, d) for e in t["es"][:3])
    if k == "map":
        return "{%s}" % " ".join(shape(e[0], bind, progs, d) + ":" + shape(e[1], bind, progs, d) for e in t["kv"][:3])
    if k == "sel":
        return "(. %s)" % shape(t["e"], bind, progs, d)
    if k == "idx":
        return "(idx %s %s)" % (shape(t["e"], bind, progs, d), shape(t["i"], bind, progs, d))
    if k == "call":
        return "(%s %s)" % (t["f"], " ".join(shape(e, bind, progs, d) for e in t["args"][:4]))
    if k == "mcall":
        return "(%s.%s %s)" % (shape(t["r"], bind, progs, d), t["f"], " ".join(shape(e, bind, progs, d) for e in t["args"][:4]))
    if k == "fstr":
        return "f'%d'" % len(t["segs"])
    if k == "match":
        return "(match %s %d)" % (shape(t["e"], bind, progs, d), len(t["cases"]))
    if k == "paren":
        return shape(t["e"], bind, progs, depth)
    return "?"


def out_class(o):
    if o.get("o") == "ok":
        return "ok"
    if o.get("o") == "err":
        return "err:" + o.get("c", "?")
    if o.get("o") == "opt":
        return "opt"
    return o.get("o", "?")


def eval_violations(run, ck, verdicts, recs, topic):
    """Turn Trace_Eval verdicts into violation records with fine-grained keys and replay files."""
    for v in verdicts:
        _, cid, form, allowed_s, obs_s = v
        rec = recs.get(cid)
        allowed = json.loads(allowed_s)
        obs = json.loads(obs_s)
        if rec is None:
            continue
        sh = shape(rec["tree"], rec.get("bind", {}), rec.get("progs", {}))
        a = out_class(allowed["allowed"])
        o = out_class(obs["out"])
        if o == a or (a == "ok" and o == "ok"):
            # same class: a wrong value, a wrong call log, or changed bindings
            if allowed.get("lk") and obs.get("log") != allowed.get("log"):
                o += ":log"
            elif o == "ok":
                o = "ok:wrong-value"
        fclass = "lit" if form in ("lit", "mixed") or (form.startswith("sub:") and "1" in form) else "bound"
        key = "%s|%s|%s|%s|allowed=%s|observed=%s" % (run.prop, topic, sh, fclass, a, o)
        src = next((x.get("src") for x in rec.get("obs", []) if x.get("form") == form), "")
        what = "%s  (%s) allowed %s observed %s" % (src[:100], form, json.dumps(allowed["allowed"])[:160], json.dumps(obs["out"])[:160])
        payload = {"property": run.prop, "kind": "eval", "topic": topic, "case": {k: rec[k] for k in rec if k != "obs"},
                   "form": form, "allowed": allowed, "observed": obs, "key": key}
        path = ck.write_replay(run, cid + form + key, payload)
        run.violations.append({"key": key, "what": what, "replay": path})


def eval_stage(run, ck, topic, n_quick, n_thorough, parts=8, extra=None, env=None):
    out = os.path.join(run.work, topic + ".ndjson")
    run.drive(topic, n_thorough if run.thorough else n_quick, out, extra=extra)
    verdicts, recs = run.validate(out, "Trace_Eval", parts=parts, label=topic, env=env)
    eval_violations(run, ck, verdicts, recs, topic)


def vm_stage(run, ck, topic, n_quick, n_thorough, extra=None):
    """Trace_VM on cases run in form "vm": trace invariants (verdicts), step conformance of VM.tla (drift,
    diagnostic), and the real bytecode under all valuations of three variables against Eval; a disagreeing
    valuation is executed on the real interpreter and judged by Trace_Eval like any other case."""
    full = os.path.join(run.work, topic + ".vm.all.ndjson")
    out = os.path.join(run.work, topic + ".vm.ndjson")
    want = n_thorough if run.thorough else n_quick
    run.drive(topic, want, full, extra=(extra or []) + ["--vm"])
    lines = [x for x in open(full).read().split("\n") if x.strip()]
    stride = max(1, len(lines) // want)
    off = run.seed % stride
    with open(out, "w") as f:          # an evenly spread sample (the exhaustive families are far larger than what is traced)
        f.write("\n".join(lines[off::stride][:want]) + "\n")
    os.remove(full)
    verdicts, recs = run.validate(out, "Trace_VM", parts=10, chunk=6, label=topic + "/vm", collect=("CAND", "CANDF", "DRIFT"))
    simple_violations(run, ck, verdicts, recs, topic + "/vm")
    cands, drift, summ = run.collected["CAND"], run.collected["DRIFT"], run.last_summary
    st = run.stages[-1]
    st.update({"vm_steps": summ[2], "model_drift": summ[3], "candidate_valuations": summ[4], "valuations_of_real_bytecode": summ[5],
               "programs_identical_to_Compile_tla": summ[6]})
    run.evaluations += summ[5]
    for d in drift[:5]:
        ck.log("[vm] model drift (diagnostic): %s" % d)
    fcands = run.collected.get("CANDF", [])
    if cands or fcands:
        by_id = {}
        for ln in open(out).read().split("\n"):
            if ln.strip():
                j = json.loads(ln)
                by_id[j["id"]] = j
        cf = os.path.join(run.work, topic + ".cand.ndjson")
        n = 0
        with open(cf, "w") as f:
            for c in cands[:2000]:
                rec = by_id.get(c[1])
                if rec is None:
                    continue
                val = json.loads(c[2])
                bind = dict(rec.get("bind", {}))
                for k, v in val.items():
                    if v.get("t") == "unbound":
                        bind.pop(k, None)
                    else:
                        bind[k] = v
                n += 1
                case = {"id": "%s#v%d" % (rec["id"], n), "tree": rec["tree"], "bind": bind, "progs": rec.get("progs", {}),
                        "funcs": rec.get("funcs", {}), "forms": ["bound"]}
                f.write(json.dumps(case) + "\n")
            for c in fcands[:2000]:
                rec = by_id.get(c[1])
                if rec is None:
                    continue
                funcs = dict(rec.get("funcs", {}))
                funcs.update(json.loads(c[2]))        # outcome records {"o":"ok","v":..} / {"o":"err","c":..}
                n += 1
                case = {"id": "%s#f%d" % (rec["id"], n), "tree": rec["tree"], "bind": rec.get("bind", {}), "progs": rec.get("progs", {}),
                        "funcs": funcs, "forms": ["bound"]}
                f.write(json.dumps(case) + "\n")
        of = os.path.join(run.work, topic + ".cand.obs.ndjson")
        run.replay(cf, of)
        v2, r2 = run.validate(of, "Trace_Eval", parts=8, label=topic + "/vm candidates")
        eval_violations(run, ck, v2, r2, topic)


def replay_one(run, path, ck):
    """Re-run one recorded case against the current tree and re-validate it."""
    payload = json.load(open(path))
    run.build()
    if payload.get("kind") == "eval":
        case = dict(payload["case"])
        case["forms"] = [payload["form"]]
        cf = os.path.join(run.work, "case.ndjson")
        with open(cf, "w") as f:
            f.write(json.dumps(case) + "\n")
        of = os.path.join(run.work, "obs.ndjson")
        run.replay(cf, of)
        verdicts, recs = run.validate(of, "Trace_Eval", parts=1, label="replay")
        print(open(of).read()[:3000])
        if verdicts:
            print("VIOLATION property=%s replay=%s (still fails)" % (run.prop, path))
            return 1
        print("replay: case now conforms")
        return 0
    print("replay kind not supported:", payload.get("kind"))
    return 2


# ---- pipelines ------------------------------------------------------------------------------
def c03(run, ck):
    run.model_check("MC_Big", workers=4)
    eval_stage(run, ck, "arith", 1500, 60000)
    if run.thorough:
        # independence of the build profile: the same cases on a release build (no overflow checks inserted by the compiler)
        run.build(release=True)
        out = os.path.join(run.work, "arith.release.ndjson")
        run.drive("arith", 20000, out, release=True)
        verdicts, recs = run.validate(out, "Trace_Eval", parts=8, label="arith (release build)")
        eval_violations(run, ck, verdicts, recs, "arith-release")
    return dict(rule="boundary grid x operators x all type pairs (each as bound variables and as literals) + seeded random 64-bit operands; "
                     "a case is non-trivial when the specification allows exactly one outcome (value or error class)",
                assumptions=["Rust's catch_unwind reports panics; release-profile behaviour is checked only in the thorough tier"])


def c04(run, ck):
    eval_stage(run, ck, "order", 800, 20000)
    return dict(rule="pairs from the boundary pool and grid x six relations; sort/min/max on generated lists",
                assumptions=[])


def c05(run, ck):
    # design level: the compilation schemes on the model VM agree with the reference evaluator on every small tree
    run.model_check("MC_Lazy", cfg="MC_Lazy_thorough.cfg" if run.thorough else "MC_Lazy.cfg", workers=8)
    eval_stage(run, ck, "lazy", 3000, 60000)
    vm_stage(run, ck, "lazy", 400, 6000)
    return dict(rule="all ||/&&/?:/! trees with <= 2 operators over 6 atom classes (each atom its own recording function, and as variables / literals), "
                     "sampled 3- and 4-operator trees, the truthiness table in every consuming context, match x two patterns", assumptions=[])


def c06(run, ck):
    eval_stage(run, ck, "coll", 1500, 30000)
    return dict(rule="lists of size 0..4 x all indices in [-size-2,size+2] + extremes; all key sequences <= 3 over 2 keys; in / + / size over type pairs; random collections",
                assumptions=[])


def c07(run, ck):
    eval_stage(run, ck, "macros", 1500, 30000)
    vm_stage(run, ck, "macros", 250, 3000)
    return dict(rule="every macro x lists of length 0..4 x body shapes (hit position k, failing at k, outer variable, stored program, nested macro with the same / another variable, unbound, recording function); "
                     "exists_one with hits at every pair of positions; reduce with non-commutative steps; equal maps built four ways must iterate identically; random lists up to 64 elements",
                assumptions=[])


def c08(run, ck):
    eval_stage(run, ck, "hascoal", 1500, 30000)
    vm_stage(run, ck, "hascoal", 400, 4000)
    return dict(rule="field paths of depth 0..4 (by .f and by ['f']) x binding configurations x 15 contexts; all coalesce argument lists of length 0..5 over {present, null, absent, failing} as recording calls",
                assumptions=[])


def c09(run, ck):
    eval_stage(run, ck, "fold", 1200, 25000)
    vm_stage(run, ck, "fold", 250, 3000)
    # the clock is read at every execution: wrappers of now()/timestamp() up to three deep (all chains), deeper random chains
    out = os.path.join(run.work, "clock.ndjson")
    run.drive("clock", 3000 if run.thorough else 300, out)
    verdicts, recs = run.validate(out, "Trace_BC", cfg="Trace_BC.cfg", parts=8, label="clock")
    simple_violations(run, ck, verdicts, recs, "clock", describe=lambda rec, v: (rec.get("text") or "")[:60])
    return dict(rule="generated expressions over <= 4 variables x every subset of the variables replaced by literals of their bound values (all must lie in the specification's outcome); "
                     "targeted programs for every construct the compiler folds", assumptions=[])


def simple_violations(run, ck, verdicts, recs, topic, describe=None):
    """Verdict tuples <<"VERDICT", id, code, ...>> from the structural trace modules."""
    for v in verdicts:
        cid, code = v[1], v[2]
        rec = recs.get(cid, {})
        extra = v[3:] if len(v) > 3 else []
        detail = describe(rec, v) if describe else ""
        key = "%s|%s|%s%s" % (run.prop, topic, code, ("|" + detail) if detail else "")
        what = "%s: %s %s" % (code, (rec.get("text") or "")[:120], " ".join(str(x)[:200] for x in extra))
        payload = {"property": run.prop, "kind": topic, "record": rec, "verdict": v, "key": key}
        path = ck.write_replay(run, cid + key, payload)
        run.violations.append({"key": key, "what": what, "replay": path})


def c10(run, ck):
    out = os.path.join(run.work, "bytecode.ndjson")
    run.drive("bytecode", 40000 if run.thorough else 3000, out)
    verdicts, recs = run.validate(out, "Trace_BC", cfg="Trace_BC.cfg", parts=8, label="bytecode verdicts")
    simple_violations(run, ck, verdicts, recs, "bytecode")
    if not verdicts:
        # every path of every block: the AbsVM state machine with the C10 invariants
        run.model_check("Trace_BC", cfg="Trace_BC_walk.cfg", env={"TRACE": out}, workers=6)
    # the VM's own bounds checks: instruction sequences no compiler emitted, and real programs with one jump perturbed
    inj = os.path.join(run.work, "inject.ndjson")
    run.drive("inject", 30000 if run.thorough else 2000, inj)
    v2, r2 = run.validate(inj, "Trace_Inject", parts=8, label="inject", collect=("DRIFT",))
    simple_violations(run, ck, v2, r2, "inject")
    run.stages[-1].update({"out_of_range_jumps_executed": run.last_summary[2], "model_drift": run.last_summary[3]})
    # executed paths of generated programs: pc inside the block and increasing, operands present (trace invariants of Trace_VM)
    vm_stage(run, ck, "fold", 250, 3000)
    return dict(rule="real bytecode of generated programs (every operator, nested ||/&&/?:/match, calls, macros, f-strings, clock calls): forward height analysis per block, then the AbsVM "
                     "state machine explores both successors of every conditional jump; states = reachable (program, block, pc, height)", assumptions=[])


def c12(run, ck):
    eval_stage(run, ck, "refs", 0, 0, parts=8)
    # cycles of length 1 and 2 through all 16 referencing constructs, also under ||, coalesce and has: they end in an error
    eval_stage(run, ck, "cycles", 0, 0, parts=8)
    vm_stage(run, ck, "refs", 120, 1500)
    # rebinding a name (directly or from JSON) and re-adding a program replace the old one: API histories against Api.tla
    out = os.path.join(run.work, "api.ndjson")
    run.drive("api", 1500 if run.thorough else 120, out)
    verdicts, recs = run.validate(out, "Trace_Api", cfg="Trace_Api.cfg", parts=8, label="api histories")
    simple_violations(run, ck, verdicts, recs, "api", describe=lambda rec, v: "")
    return dict(rule="every reference graph on <= 3 programs (each node: one successor or a leaf) with every referencing construct on the edges, sampled out-degree-2 graphs on <= 4 programs, "
                     "chains of length 1..64 through each construct, every case in a child process (main thread and a 2 MB thread); name-collision configurations of one name as type/variable/program/function/macro/map field",
                assumptions=["the default stack sizes of this machine (8 MB main thread, 2 MB spawned thread)"])


# verdicts of Trace_Parse about positions (C18); the others are about what is accepted and which tree comes out (C02)
SPAN_CODES = {"error-location-outside-source", "token-span-outside-source", "token-span-empty-or-reversed", "token-spans-overlap",
              "token-does-not-relex", "tree-spans", "spanned-text-is-not-the-subtree"}


def parse_stage(run, ck, n_quick, n_thorough):
    out = os.path.join(run.work, "parse.ndjson")
    run.drive("parse", n_thorough if run.thorough else n_quick, out)
    verdicts, recs = run.validate(out, "Trace_Parse", cfg="Trace_Parse.cfg", parts=8, label="parse")
    verdicts = [v for v in verdicts if (v[2] in SPAN_CODES) == (run.prop == "C18")]
    simple_violations(run, ck, verdicts, recs, "parse", describe=lambda rec, v: parse_shape(rec))


def parse_shape(rec):
    """Which constructs a source uses: part of the finding key."""
    text = rec.get("text", "")
    feats = []
    for tok, name in (("match", "match"), ("?", "tern"), ("[", "bracket"), ("{", "brace"), (".", "dot"), ("(", "paren"), ("\n", "newline")):
        if tok in text:
            feats.append(name)
    return "+".join(feats[:4])


def c02(run, ck):
    parse_stage(run, ck, 300, 6000)
    eval_stage(run, ck, "parse_eval", 600, 15000)
    return dict(rule="every flat sequence of <= 2 (thorough: 3) binary/ternary operators with unary prefixes incl. ill-formed ones: real tokens parsed by Grammar!Parse must give the exposed tree and accept/reject must agree; "
                     "generated deeper trees rendered with minimal, full and random parentheses and whitespace must come back as the intended tree and evaluate identically",
                assumptions=["the token stream is taken from the real tokenizer (checked separately by C13 and C18)"])


def c18(run, ck):
    parse_stage(run, ck, 500, 10000)
    # error locations of arbitrary rejected text (grammar-derived, token-mutated, token soup, random UTF-8)
    out = os.path.join(run.work, "fuzz.ndjson")
    run.drive("fuzz", 40000 if run.thorough else 2500, out)
    verdicts, recs = run.validate(out, "Trace_Parse", cfg="Trace_Parse.cfg", parts=8, label="fuzz")
    verdicts = [v for v in verdicts if v[2] in SPAN_CODES]
    simple_violations(run, ck, verdicts, recs, "fuzz", describe=lambda rec, v: parse_shape(rec))
    return dict(rule="generated expressions rendered with random spaces, tabs, newlines and multi-byte text: token spans increasing / inside the source / re-lexing to the same token; every node span equals the span the grammar assigns "
                     "(first token start to last token end); sampled sub-expressions compiled on their own give the same subtree; corrupted variants: error locations inside the source",
                assumptions=["match patterns carry no span obligation"])


def c13(run, ck):
    out = os.path.join(run.work, "literals.ndjson")
    run.drive("literals", 4000 if run.thorough else 250, out)
    verdicts, recs = run.validate(out, "Trace_Lit", cfg="Trace_Lit.cfg", parts=8, label="literals")
    def describe(rec, v):
        t = rec.get("text", "")
        kind = "bytes" if t.lstrip("-").startswith("b") and len(t) > 1 and t.lstrip("-")[1] in "'\"" else "fstr" if t.startswith("f'") or t.startswith('f"') else "raw" if t.startswith("r'") or t.startswith('r"') else "str" if t[:1] in "'\"" else "hex" if "0x" in t.lower() else "float" if any(c in t for c in ".eE") else "int"
        return kind + ("-u" if t.lower().endswith("u") and kind in ("int", "hex") else "") + ("-neg" if rec.get("neg") else "")
    simple_violations(run, ck, verdicts, recs, "literals", describe=describe)
    return dict(rule="boundary and random 64-bit integers in decimal / hex / u spellings with and without unary minus; finite doubles (boundary + random bit patterns) as shortest, exponent, 17- and 20-digit and leading-dot spellings; "
                     "strings and byte strings over the code-point ladder with a random escape form per character; raw and f-prefixed forms; every malformed/truncated escape pattern; TLC re-lexes the characters",
                assumptions=["doubles with more than 40 digits or exponents beyond +-400 are outside the modelled fragment (unknown)"])


def c01(run, ck):
    eval_stage(run, ck, "total", 100, 100, env={"ONLYCRASH": "1"})
    # reference cycles of length 1 and 2 through all 16 referencing constructs, in child processes (8 MB and 2 MB stacks)
    eval_stage(run, ck, "cycles", 0, 0, env={"ONLYCRASH": "1"})
    out = os.path.join(run.work, "fuzz.ndjson")
    run.drive("fuzz", 40000 if run.thorough else 2500, out)
    verdicts, recs = run.validate(out, "Trace_Parse", cfg="Trace_Parse.cfg", parts=8, label="fuzz")
    # only totality is C01's business: what the parse says about spans and error locations belongs to C02 / C18
    verdicts = [v for v in verdicts if "crash" in v[2] or "panic" in v[2]]
    simple_violations(run, ck, verdicts, recs, "fuzz", describe=lambda rec, v: parse_shape(rec))
    out = os.path.join(run.work, "ladder.ndjson")
    run.drive("ladder", 1, out)
    verdicts, recs = run.validate(out, "Trace_Total", cfg="Trace_Total.cfg", parts=1, label="ladder")
    # the recorded finding is stack exhaustion of the recursive-descent compiler on deep nesting (from about a hundred levels,
    # depending on shape, build profile and stack size): one key per shape for that; a crash at a shallower depth keeps its depth
    def ladder_key(rec, v):
        d = rec.get("depth") or 0
        return "%s|%s" % (rec.get("shape"), "deep" if d >= 100 else "depth=%s|thread=%s" % (d, rec.get("thread")))
    simple_violations(run, ck, verdicts, recs, "ladder", describe=ladder_key)
    return dict(rule="every built-in function, macro and type constructor x argument tuples from the boundary pool (arity <= 1 exhaustive with and without receiver, arity 2 exhaustive in the thorough tier, 3-4 sampled), "
                     "every operator x pool^2, each as bound values and as literals (compile-time evaluation); grammar-derived, token-mutated, token-soup and random UTF-8 sources; nesting ladders of 17 shapes in child processes on an 8 MB and a 2 MB stack",
                assumptions=["stack exhaustion is observed per build profile and stack size of this machine", "the harness is built with opt-level 1"])


def c11(run, ck):
    # spec -> implementation: every history of length L of the Api machine, replayed through the real API
    cases = os.path.join(run.work, "gen_api.ndjson")
    run.generate("Gen_Api", cfg="Gen_Api_thorough.cfg" if run.thorough else "Gen_Api.cfg", workers=8, out_file=cases)
    # the same machine with user functions (BindFunc) and serialization round trips (SerRound) in the alphabet
    cases2 = os.path.join(run.work, "gen_api_ext.ndjson")
    run.generate("Gen_Api", cfg="Gen_Api_ext_thorough.cfg" if run.thorough else "Gen_Api_ext.cfg", workers=8, out_file=cases2)
    with open(cases, "a") as f, open(cases2) as g:
        f.write(g.read())
    obs = os.path.join(run.work, "gen_api_obs.ndjson")
    ck.sh([run.vh, "replay-hist", cases, obs], cwd=run.work, timeout=3600)
    verdicts, recs = run.validate(obs, "Trace_Api", cfg="Trace_Api.cfg", parts=8, label="TLC-generated histories")
    simple_violations(run, ck, verdicts, recs, "gen-api", describe=lambda rec, v: "")
    run.exhaustive = True
    out = os.path.join(run.work, "api.ndjson")
    run.drive("api", 3000 if run.thorough else 250, out)
    verdicts, recs = run.validate(out, "Trace_Api", cfg="Trace_Api.cfg", parts=8, label="api histories")
    simple_violations(run, ck, verdicts, recs, "api", describe=lambda rec, v: "")
    return dict(rule="random histories (10-200 steps) over {new/clone context, add/replace program (source or precompiled), new/clone bindings, bind/rebind (directly or from JSON), bind/rebind user function, program through JSON/bincode serialization into any context, exec, details} on up to 10 program names, 5 variables and 2 function names; "
                     "after every call the recorded objects must equal the specification's state and every exec must be an outcome of the current programs and bindings; 16 threads replay histories concurrently, each validated on its own",
                assumptions=["thread schedules are whatever the OS produces"])


def c19(run, ck):
    run.model_check("MC_Ser", workers=1)
    out = os.path.join(run.work, "ser.ndjson")
    run.drive("ser", 8000 if run.thorough else 800, out)
    verdicts, recs = run.validate(out, "Trace_Ser", cfg="Trace_Ser.cfg", parts=1, label="round trips")
    def describe(rec, v):
        text = rec.get("text", "")
        # the recorded finding: a folded non-finite double is written to JSON as null, which cannot be read back as a double
        msgs = " ".join(f.get("msg", "") for f in rec.get("fmts", []) if f.get("fmt") == "json")
        kind = "nonfinite" if any(x in text for x in ("1.0/0.0", "0.0/0.0")) or "invalid type: null, expected f64" in msgs else "other"
        return "%s|%s" % (v[3] if len(v) > 3 else "", kind)
    simple_violations(run, ck, verdicts, recs, "ser", describe=describe)
    return dict(rule="constant programs holding every value type (extreme integers, non-finite doubles, bytes, nested lists/maps, types, timestamps and durations, error constants) and every instruction, plus generated programs, "
                     "x JSON and bincode x three bindings: serialization and deserialization succeed, source and parameters unchanged, same value or same error variant; variant coverage is checked by the specification",
                assumptions=["byte-level encodings are not modelled: the specification models the variant numbering of the derived (de)serializers and judges recorded round trips"])


def c17(run, ck):
    out = os.path.join(run.work, "params.ndjson")
    run.drive("params", 6000 if run.thorough else 500, out)
    verdicts, recs = run.validate(out, "Trace_Params", cfg="Trace_Params.cfg", parts=8, label="params")
    simple_violations(run, ck, verdicts, recs, "params", describe=lambda rec, v: rec.get("position", ""))
    return dict(rule="a variable placed in each of 34 syntactic positions and in every pair of nested positions (thorough: all pairs), plus generated programs: FreeVars(tree) within the reported list within the identifiers of the source; "
                     "filter_from_bindings against three binding sets; every unreported identifier rebound to a different value must not change the outcome",
                assumptions=["built-in type names are never variables and need not be reported"])


def c14(run, ck):
    eval_stage(run, ck, "conv", 300, 8000)
    # probes of a recorded finding: braces inside a literal nested in an embedded expression
    eval_stage(run, ck, "fstrbrace", 0, 0, parts=1)
    return dict(rule="every conversion function x the numeric grid, the non-numeric pool, 60 numeric / boolean / garbage spellings and valid / invalid UTF-8 byte strings (bound and literal); type(T(x)) == T; round-trip laws on random values "
                     "(the observed string(d) is re-read by the specification's decimal parser and must denote d exactly); f-strings against the concatenation of their literal parts and string(e), both by the specification and as an equation evaluated by the implementation",
                assumptions=["string(double) is checked by the law double(string(d)) == d and by re-parsing, not by a unique expected spelling"])


def c15(run, ck):
    eval_stage(run, ck, "strings", 300, 6000)
    return dict(rule="all strings of length <= 2 over a mixed ASCII / multi-byte / case-folding alphabet plus sampled longer ones x needles (empty, overlapping, absent, multi-byte) x every string function; defining equations evaluated on random strings up to 40 characters; "
                     "regex patterns from a subset grammar (decided by the specification's matcher) and invalid patterns; math functions on the boundary grid (integer forms exact, sqrt correctly rounded); the signature table (receiver type x arity 0..3 x argument types)",
                assumptions=["regex syntax outside the subset and transcendental double results (pow/log of doubles) are not decided", "case mapping only on the listed alphabet"])


def add_zone_offsets(path):
    """Zone offsets are an input of the specification: taken from the system time-zone database (python3 zoneinfo)
    for instants in 1985..2026 (where it agrees with the database embedded in rscel; zone WET excluded)."""
    import datetime, zoneinfo
    lo, hi = 473385600, 1767225600
    out = []
    n = 0
    for line in open(path).read().split("\n"):
        if not line.strip():
            continue
        if '"zone"' in line:
            rec = json.loads(line)
            z = rec.get("extra", {}).get("zone")
            t = rec["bind"]["t"]["ns"]
            ns = 0
            for i, limb in enumerate(t["m"]):
                ns += limb << (15 * i)
            ns *= t["s"]
            secs = ns // 1_000_000_000
            if z and z != "WET" and lo <= secs < hi:
                try:
                    off = datetime.datetime.fromtimestamp(secs, zoneinfo.ZoneInfo(z)).utcoffset()
                    rec["extra"] = {"law": "tz", "off": int(off.total_seconds()), "zone": z}
                    n += 1
                except Exception:
                    rec["extra"] = {}
            else:
                rec["extra"] = {}
            line = json.dumps(rec, separators=(",", ":"))
        out.append(line)
    with open(path, "w") as f:
        f.write("\n".join(out) + "\n")
    return n


def c16(run, ck):
    out = os.path.join(run.work, "time.ndjson")
    run.drive("time", 3000 if run.thorough else 150, out)
    n = add_zone_offsets(out)
    ck.log("[tz] %d zone cases given an offset from the system database" % n)
    verdicts, recs = run.validate(out, "Trace_Eval", parts=8, label="time")
    eval_violations(run, ck, verdicts, recs, "time")
    return dict(rule="boundary instants (years -1..10000, leap days, year ends, each weekday, representable min/max) and random instants x ten accessors without zone, with 'UTC' and with 18 IANA zones (offsets from the system database, DST transitions +-1 s) and invalid zones; "
                     "duration accessors on boundary and random durations; arithmetic laws and range errors; timestamp()/duration() constructors; every pair of 20 units against exact rational definitions (1e-6), inverse law (1e-9), temperatures at fixed points, incompatible/unknown units",
                assumptions=["zone offsets are trusted input from python3 zoneinfo for 1985-2026 (WET excluded)", "unit definitions: international avoirdupois / US customary / SI values"])


def c20(run, ck):
    out = os.path.join(run.work, "sql.ndjson")
    run.drive("sql", 8000 if run.thorough else 800, out)
    verdicts, recs = run.validate(out, "Trace_Sql", cfg="Trace_Sql.cfg", parts=8, label="sql")
    def describe(rec, v):
        w = rec.get("want", {})
        if _any_node(w, lambda n: n.get("k") == "un" and n.get("op") == "-" and n.get("n", 1) >= 2):
            return "negrun"
        if _any_node(w, lambda n: n.get("k") == "call" and n.get("f") in ("int", "uint", "float", "double", "string", "bool", "bytes", "timestamp", "duration")
                     and len(n.get("args", [])) == 1 and _unparen(n["args"][0]).get("k") == "bin"):
            return "cast-of-binary"
        casts = ("int", "uint", "float", "double", "string", "bool", "bytes", "timestamp", "duration")
        def cast_call(n):
            n = _unparen(n)
            return isinstance(n, dict) and n.get("k") == "call" and n.get("f") in casts and len(n.get("args", [])) <= 1
        if _any_node(w, lambda n: (n.get("k") == "mcall" and cast_call(n.get("r"))) or (n.get("k") in ("sel", "idx") and cast_call(n.get("e")))):
            # the recorded finding emits the constructor as a function call but keeps the chain; a translation that lost
            # a member of the chain is something else
            sql = (rec.get("out") or {}).get("text", "")
            names = []
            def collect(n):
                if isinstance(n, dict):
                    if n.get("k") in ("sel", "mcall") and isinstance(n.get("f"), str):
                        names.append(n["f"])
                    for x in n.values():
                        collect(x)
                elif isinstance(n, list):
                    for x in n:
                        collect(x)
            collect(w)
            if any(nm not in sql for nm in names):
                return "cast-as-receiver|member-lost"
            return "cast-as-receiver"
        feats = []
        text = json.dumps(w)
        for k in ("mcall", "call", "map", "list", "sel", "tern"):
            if '"k": "%s"' % k in text:
                feats.append(k)
        has_quote = any(39 in (x if isinstance(x, list) else []) for x in _str_lits(w))
        return "+".join(feats[:2]) + ("|quote" if has_quote else "")
    simple_violations(run, ck, verdicts, recs, "sql", describe=describe)
    return dict(rule="20 string literals over quotes, backslashes, dashes, semicolons, newlines and comment openers in 7 positions; calls alone / as receiver / chained with 0..3 arguments; generated trees over the translatable subset; untranslatable constructs; "
                     "the SQL text is read back character by character by the specification's lexer and parser and compared with the source tree",
                assumptions=["string literals follow the standard convention ('' doubles a quote, backslash is literal)", "nothing executes the SQL"])


def _unparen(n):
    while isinstance(n, dict) and n.get("k") == "paren":
        n = n["e"]
    return n


def _any_node(t, pred):
    if isinstance(t, dict):
        if "k" in t and pred(t):
            return True
        return any(_any_node(v, pred) for v in t.values())
    if isinstance(t, list):
        return any(_any_node(v, pred) for v in t)
    return False


def _str_lits(t):
    out = []
    if isinstance(t, dict):
        if t.get("k") == "lit" and t.get("v", {}).get("t") == "str":
            out.append(t["v"]["s"])
        for v in t.values():
            out.extend(_str_lits(v))
    elif isinstance(t, list):
        for v in t:
            out.extend(_str_lits(v))
    return out


PIPELINES = {"C20": c20, "C16": c16, "C15": c15, "C14": c14, "C17": c17, "C19": c19, "C11": c11, "C01": c01, "C13": c13, "C02": c02, "C18": c18, "C12": c12, "C10": c10, "C09": c09, "C03": c03, "C04": c04, "C05": c05, "C06": c06, "C07": c07, "C08": c08}
