"""Which properties are registered in MANIFEST.json, with the claim made for each."""
NOTES = ("One layered TLA+ specification (spec/) is the oracle for every check; TLC is used for exhaustive model checking (MC_*), "
         "case generation (Gen_*) and trace validation (Trace_*). See DESIGN.md.")
TV = ("TLA+ reference semantics (spec/Eval.tla, Values.tla, Dbl.tla, Big.tla) + TLC trace validation of recorded executions of the real API "
      "(spec/Trace_Eval.tla); generators enumerate the boundary spaces exhaustively and add seeded random cases")
CHECKS = {
    "C03": {"text": "Every recorded evaluation of + - * / % and unary - (boundary grid x all type pairs x literal/bound forms, plus random 64-bit operands) is checked by TLC "
                    "against an exact, width-generic reference semantics: limb arithmetic for int/uint, bit-exact IEEE-754 round-to-nearest-even for doubles. "
                    "The arithmetic modules themselves are model-checked against TLC's native integers and hardware doubles.",
            "note": "Trusted: the harness' projection of CelValue to the JSON value encoding, TLC, catch_unwind for panics. The release profile is exercised in the thorough tier only.",
            "technique": TV},
    "C04": {"text": "All six relations on every pair of the boundary pool/grid and random pairs, and sort/min/max on generated lists, are validated by TLC against the "
                    "specification's single order Ord/Eq (exact int/uint comparison, integers meet doubles as nearest double, NaN unordered); sort results are checked by the law "
                    "IsSorted /\\ IsPerm where ties make the result non-unique.",
            "note": "Trusted: value projection, TLC. Transitivity is implied by agreement with the specification's total order on each family.",
            "technique": TV},
    "C05": {"text": "All ||/&&/?:/! trees with <= 2 operators over value classes (true, false, truthy, falsy, failing-other, failing-absent, failing argument, failing/truthy stored program), "
                    "each atom its own recording function, are executed and TLC checks outcome AND call log against the lazy reference semantics; truthiness table in every consuming context; match.",
            "note": "Trusted: recording functions bound through bind_func log every call; TLC.",
            "technique": TV},
    "C06": {"text": "Lists of size 0..4 x every index in [-size-2,size+2] and extreme/non-integer indices, every key sequence <= 3 over two keys with duplicates (literal, bound, mixed), "
                    "in / + / size over all operand type pairs, validated by TLC against Values.tla (Index, MkMap last-wins, In, Size as UTF-8 length).",
            "note": "Trusted: value projection (maps sorted by key), TLC.",
            "technique": TV},
}
NOT_YET = {}
