"""Which properties are registered in MANIFEST.json, with the claim made for each."""
NOTES = ("One layered TLA+ specification (spec/) is the oracle for every check; TLC is used for exhaustive model checking (MC_*), "
         "case generation (Gen_*) and trace validation (Trace_*). See DESIGN.md.")
TV = ("TLA+ reference semantics (spec/Eval.tla, Values.tla, Dbl.tla, Big.tla) + TLC trace validation of recorded executions of the real API "
      "(spec/Trace_Eval.tla); generators enumerate the boundary spaces exhaustively and add seeded random cases")
CHECKS = {
    "C03": {"text": "Every recorded evaluation of + - * / % and unary - (boundary grid x all type pairs x literal/bound forms, plus random 64-bit operands) is checked by TLC "
                    "against an exact, width-generic reference semantics: limb arithmetic for int/uint, bit-exact IEEE-754 round-to-nearest-even for doubles. "
                    "The arithmetic modules themselves are model-checked against TLC's native integers and hardware doubles.",
            "note": "Trusted: the harness' projection of CelValue to the JSON value encoding, TLC, catch_unwind for panics. The release profile is exercised in the thorough tier only.",
            "technique": TV},
    "C04": {"text": "All six relations on every pair of the boundary pool/grid and random pairs, and sort/min/max on generated lists, are validated by TLC against the "
                    "specification's single order Ord/Eq (exact int/uint comparison, integers meet doubles as nearest double, NaN unordered); sort results are checked by the law "
                    "IsSorted /\\ IsPerm where ties make the result non-unique.",
            "note": "Trusted: value projection, TLC. Transitivity is implied by agreement with the specification's total order on each family.",
            "technique": TV},
    "C05": {"text": "All ||/&&/?:/! trees with <= 2 operators over value classes (true, false, truthy, falsy, failing-other, failing-absent, failing argument, failing/truthy stored program), "
                    "each atom its own recording function, are executed and TLC checks outcome AND call log against the lazy reference semantics; truthiness table in every consuming context; match.",
            "note": "Trusted: recording functions bound through bind_func log every call; TLC.",
            "technique": TV},
    "C06": {"text": "Lists of size 0..4 x every index in [-size-2,size+2] and extreme/non-integer indices, every key sequence <= 3 over two keys with duplicates (literal, bound, mixed), "
                    "in / + / size over all operand type pairs, validated by TLC against Values.tla (Index, MkMap last-wins, In, Size as UTF-8 length).",
            "note": "Trusted: value projection (maps sorted by key), TLC.",
            "technique": TV},
}
CHECKS.update({
    "C07": {"text": "Every macro x lists of length 0..4 x body shapes (hit / failure at each position, outer variable, stored program, nested macro re-using the variable name, unbound name, recording function) "
                    "is executed (bound and literal forms) and TLC checks outcome and call log against the defining folds of Eval.tla (early exit, failure propagation, lexical loop variable, caller's bindings unchanged); "
                    "exists_one for every pair of hit positions; maps built four ways must iterate identically; random lists up to 64 elements.",
            "note": "Trusted: value projection, recording functions, TLC. Which fixed order maps use is not stated by the property: only its uniqueness is checked.",
            "technique": TV},
    "C08": {"text": "Field paths of depth 0..4 (by .f and ['f']) x binding configurations (root unbound, intermediate missing / not a map / null, leaf missing / null / present) x 15 contexts (top level, macro body, nested has/coalesce, call argument, failing arithmetic on the path) "
                    "and every coalesce argument list of length 0..5 over {present, null, absent, failing} as recording calls are validated by TLC against Eval.tla's Has/Coalesce (class absent vs other; call log).",
            "note": "Trusted: the harness' classification of CelError::Binding/Attribute as 'absent' and everything else as 'other'.",
            "technique": TV},
    "C09": {"text": "Generated expressions over <= 4 variables are compiled once per subset of variables replaced by literals of their bound values (2^k programs per case) and every one must produce an outcome the specification allows for the original "
                    "(the specification evaluates the tree once: folding is invisible by construction); targeted programs cover each construct the compiler folds or pre-evaluates.",
            "note": "Trusted: rendering of values as literals (checked by C13), TLC. Clock calls are covered by the bytecode check of C10 (NoFrozenClock) and a two-execution comparison.",
            "technique": TV},
})
CHECKS.update({
    "C10": {"text": "The real bytecode of thousands of generated programs (every operator, nested ||/&&/?:/match, calls, macros, f-strings) is handed to TLC: a forward height analysis gives a verdict per program "
                    "(jump range, underflow, meeting heights, forward-only, one value at the end, for the main block and every nested argument/macro/f-string block), then the AbsVM state machine explores both successors of every "
                    "conditional jump with the C10 invariants in every reachable (program, block, pc, height). Clock calls must survive compilation and tick between executions.",
            "note": "Trusted: the structural projection of ByteCode to JSON. Semantic mis-jumps that preserve heights are the business of the all-valuation run planned with VM.tla (DESIGN C10 T').",
            "technique": "TLA+ abstract stack machine (spec/AbsVM.tla) model-checked by TLC over the recorded bytecode of the real compiler (spec/Trace_BC.tla): all paths, not only executed ones"},
    "C12": {"text": "Every reference graph on <= 3 stored programs (successor or leaf per node) with each of 10 referencing constructs on the edges (bare identifier, macro range/body/predicate, call argument, has, coalesce, f-string, index, absorbing ||), "
                    "acyclic out-degree-2 graphs on <= 4 programs, chains of length 1..64 through each construct, and all collision configurations of one name as type/variable/program/function/macro/map field are executed in child processes "
                    "(main thread and a 2 MB thread) and validated by TLC against Eval.tla's resolution order and depth model (cycle detection on <program, bindings>, >= 16 nested contexts guaranteed, depth failures may abort the whole evaluation).",
            "note": "Trusted: process exit status as crash detector; default stack sizes of this machine. Cyclic graphs with two references per program are not generated (2^32 steps to reach the depth error through absorbing constructs).",
            "technique": TV},
})
CHECKS.update({
    "C02": {"text": "The complete set of flat sequences of <= 2 (thorough: 3) binary/ternary operators with unary prefixes and postfixes - ill-formed ones included - and generated deeper trees in four renderings are compiled; "
                    "TLC parses the real token stream with Grammar.tla (one operator per precedence level, left-leaning, right-nested ?:) and requires the exposed syntax tree to be exactly that tree, accept/reject to agree with the grammar, "
                    "the generator's intended tree to come back under minimal/full/random parenthesisation and whitespace, and all renderings to evaluate to the outcome Eval.tla allows.",
            "note": "Trusted: the harness' projection of the AST (wrapper nodes collapsed, call arguments ordered by position) and the tokens of the real tokenizer.",
            "technique": "TLA+ grammar (spec/Grammar.tla) evaluated by TLC on recorded token streams and compared with the recorded syntax trees (spec/Trace_Parse.tla); evaluation equivalence through spec/Trace_Eval.tla"},
    "C18": {"text": "For every recorded compilation TLC recomputes the span of every node from the token spans (first token start to last token end, as Grammar.tla defines it) and requires the exposed tree to carry exactly those spans; "
                    "token spans must be increasing, non-overlapping, inside the source and re-lex to the same token; sampled spanned sub-texts compiled on their own must give the same subtree; "
                    "syntax errors of corrupted variants must point inside the source. Sources are rendered with random spaces, tabs, newlines and multi-byte characters.",
            "note": "Trusted: line/column to character offset arithmetic in the harness (re-checked by TLC's InSource on the recorded code points).",
            "technique": "TLA+ grammar with spans (spec/Grammar.tla) + TLC trace validation of recorded tokens, trees and error locations (spec/Trace_Parse.tla)"},
})
CHECKS.update({
    "C13": {"text": "TLC re-lexes the characters of every recorded literal with Lexer.tla (decimal/hex/u integers with range, doubles through exact correctly-rounded decimal->binary64 conversion, quoted/raw/byte/f strings with every escape form) "
                    "and requires the evaluated value to be the denoted one bit for bit, and a syntax error for out-of-range integers, invalid code points, malformed/truncated escapes and unterminated literals. "
                    "Inputs: boundary + random 64-bit integers in all spellings (with unary minus), boundary + random-bit doubles in five spellings, strings over a code-point ladder with a random escape per character.",
            "note": "Trusted: value projection. Spellings outside the modelled fragment (unknown escapes, > 40 digits) are only required not to crash.",
            "technique": "TLA+ literal lexer and exact binary64 rounding (spec/Lexer.tla, Dbl.tla) + TLC trace validation of recorded literal evaluations (spec/Trace_Lit.tla)"},
})
CHECKS.update({
    "C01": {"text": "No action of the specification has the outcome 'crash': every recorded compile/evaluate call must end in a value or an error. Recorded: every built-in function, macro and type constructor x argument tuples from the boundary pool "
                    "(arity <= 1 exhaustive with and without receiver, arity 2 exhaustive in the thorough tier), every operator x pool^2, as bound values and as literals (so the folding compiler runs the operation too); "
                    "grammar-derived, token-mutated, token-soup and random UTF-8 sources (also validated by the grammar: accept/reject and error locations); 17 nesting shapes as depth ladders in child processes on 8 MB and 2 MB stacks.",
            "note": "Trusted: catch_unwind, child exit status and a 60 s watchdog as crash/abort/hang detectors. Stack exhaustion is empirical per build profile (harness: opt-level 1) and stack size; known ladder findings are listed per shape and depth.",
            "technique": "TLA+ specification whose actions have only ok/err outcomes (spec/Trace_Total.tla, Trace_Eval.tla with ONLYCRASH, Trace_Parse.tla) + TLC trace validation of recorded executions of the real API"},
})
CHECKS.update({
    "C11": {"text": "Spec -> implementation: TLC enumerates every history of length 6 (thorough: 7) of the Api state machine over {new/clone context, add/replace program, new/clone bindings, bind/rebind, exec} and every history of length 5 (thorough: 6) of the same machine with user functions (bind/rebind function) and serialization round trips of stored programs into any context "
                    "(checking ExecFunctional and the purity/clone action properties in every state) and each history is replayed through the real API. Implementation -> spec: random histories of 10-200 calls, sequentially and on 16 threads at once. "
                    "After every call the recorded objects (sources by name, values by name, user functions by name) must equal the specification's state - so exec changes nothing, clones are independent, add/bind replace - and every exec outcome must be one Eval allows for the current state only.",
            "note": "Trusted: the harness' read-back of contexts/bindings through get_program/get_param. Thread schedules are sampled by the OS, not enumerated.",
            "technique": "TLA+ history machine (spec/Api.tla): TLC-generated histories replayed into the real API (spec/Gen_Api.tla) and recorded histories validated by TLC (spec/Trace_Api.tla)"},
})
CHECKS.update({
    "C19": {"text": "Model: the variant tables of the derived (de)serializers (written index = position among all variants, read index = position among the non-skipped ones) are checked by TLC to agree on every serializable variant "
                    "(the table before the repair is kept as the counterexample it is). Conformance: constant programs holding every value type and every instruction plus generated programs are round-tripped through JSON and bincode and executed "
                    "under three bindings: both steps succeed, source and parameters are unchanged, same value or same error variant; the specification checks that every variant occurred.",
            "note": "Trusted: serde_json / bincode as the formats in use. Byte-level encodings are not modelled. Sub-millisecond time constants are outside the property (millisecond resolution is the contract).",
            "technique": "TLA+ model of serde's variant numbering (spec/Ser.tla, MC_Ser) + TLC validation of recorded round trips with a variant-coverage obligation (spec/Trace_Ser.tla)"},
})
CHECKS.update({
    "C17": {"text": "A variable is placed in each of 34 syntactic positions (operands, call arguments, receivers, macro range / body / predicate / transform, reduce step and seed, f-string segment, index, map key and value, match scrutinee / pattern / arm, "
                    "untaken branches, short-circuited operands, has/coalesce arguments, type constructor) and in pairs of nested positions; TLC computes FreeVars(tree) with Params.tla and requires FreeVars within the reported list within the identifiers of the source, "
                    "filter_from_bindings to remove exactly the bound names for three binding sets, and rebinding any unreported identifier not to change the outcome.",
            "note": "Trusted: Program::params() / ProgramDetails::filter_from_bindings as the reporting API (the Python/WASM wrappers over them are not run).",
            "technique": "TLA+ free-identifier computation (spec/Params.tla) + TLC trace validation of recorded compilations (spec/Trace_Params.tla)"},
})
CHECKS.update({
    "C14": {"text": "Every conversion function x the numeric grid, the non-numeric pool, 60 numeric/boolean/garbage spellings and valid/invalid UTF-8 byte strings, as bound values and literals, validated by TLC against Builtins.tla "
                    "(integral conversions exact or error, double->integer truncation with saturation from the bit fields, int->double nearest, string<->number through exact decimal arithmetic, bytes<->string through UTF-8, type(T(x)) == T); "
                    "round-trip laws on random values with the observed string(d) re-read by the specification's decimal parser; f-strings against concatenation, by the specification and as an equation evaluated by the implementation.",
            "note": "Trusted: value projection. string(double) is checked by re-parsing (double(string(d)) == d), not by one expected spelling; timestamp/duration conversions are covered under C16.",
            "technique": TV},
    "C15": {"text": "String functions on all strings of length <= 2 over a mixed ASCII/multi-byte/case-folding alphabet plus sampled longer ones x needles (empty, overlapping, absent, multi-byte), validated by TLC against the defining equations in Strings.tla "
                    "(substring/prefix/suffix, left and right scans, replace = join of split, strip-while trims, byte-offset splitAt, case mapping on a fixed alphabet); equations evaluated by the implementation on random strings up to 40 characters; "
                    "regex patterns from a subset grammar decided by the specification's own matcher (matches, matchCaptures, matchReplace*), invalid patterns must be errors; abs/pow/log/lg exact on Big, sqrt correctly rounded, ceil/floor/round from the double's bits; "
                    "the signature table: receiver type x arity 0..3 x argument types must be errors outside the documented shapes.",
            "note": "Not decided: regex syntax outside the subset, pow/log of doubles (AnyOut), case mapping outside the listed alphabet, explicit null arguments (known finding).",
            "technique": TV},
})
CHECKS.update({
    "C16": {"text": "Ten calendar accessors on boundary instants (years -1..10000, leap days, year ends, every weekday, representable min/max) and random instants - without zone, with 'UTC' and with 18 IANA zones whose offset at that instant is an input taken from the system "
                    "time-zone database (DST transitions +-1 s), invalid zones must fail - are validated by TLC against Time.tla (days-from-civil arithmetic, documented bases); duration accessors; (t+d)-d, (t1-t2)+t2, d1+d2-d2, chronological order and range errors decided exactly on nanosecond Bigs; "
                    "timestamp()/duration() constructors incl. an RFC 3339 reader; uomConvert for every pair of 20 units against exact rational definitions (1e-6), the inverse law (1e-9), temperature fixed points, unknown/incompatible units.",
            "note": "Trusted input: python3 zoneinfo offsets for 1985-2026 (zone WET excluded); the unit definitions in Time.tla. duration(string) formats are not decided.",
            "technique": TV},
})
CHECKS.update({
    "C20": {"text": "The SQL text produced for generated CEL trees (translatable subset: operators, ?:, calls alone / as receiver / chained with 0..3 arguments, member and index paths, lists, maps, casts; string literals over quotes, backslashes, dashes, semicolons, "
                    "newlines and comment openers in seven positions) is read back character by character by the specification's own lexer (ground / string / comment states) and parser, and the SQL tree must correspond to the CEL tree: "
                    "same operators, operand order and grouping, function names with arguments in source order, field/index paths, casts; each CEL string literal exactly one SQL string token with the same content; no comment token; untranslatable constructs unsupported.",
            "note": "Trusted: the standard SQL string convention ('' doubles a quote, backslash literal). Nothing executes the SQL. Known findings: '--' from double negation, unparenthesized cast operand, cast as chain receiver.",
            "technique": "TLA+ SQL lexer state machine, parser and tree correspondence (spec/Sql.tla) + TLC validation of recorded translations (spec/Trace_Sql.tla)"},
})
NOT_YET = {}

# ---- additions made with VM.tla / Compile.tla (see DESIGN.md section 17) ----------------------------------------------
VMT = (" The real bytecode and the cfg(rscel_verif) interpreter trace of sampled cases are also validated against the implementation-shaped model "
       "(spec/VM.tla via spec/Trace_VM.tla): TLC runs the real bytecode under every valuation of up to three variables over {true,false,1,0,'',null,unbound}, "
       "compares with Eval.tla, and every disagreeing valuation is executed on the real interpreter and judged by Trace_Eval.")
VMTECH = ("; TLA+ stack-machine model (spec/VM.tla) run by TLC on the real compiler's bytecode under all small valuations, candidates replayed into the real interpreter "
          "(spec/Trace_VM.tla); step-by-step conformance of the recorded interpreter trace with VM.tla as a diagnostic")
for k in ("C05", "C07", "C08", "C09", "C12"):
    CHECKS[k]["text"] += VMT
    CHECKS[k]["technique"] += VMTECH
CHECKS["C05"]["text"] += (" Design level: MC_Lazy model-checks that the compilation schemes of spec/Compile.tla executed on spec/VM.tla agree (outcome and call log) with Eval.tla on every tree "
                          "of a bounded family; Compile.tla itself is compared with the real compiler's output on every literal-free case.")
CHECKS["C05"]["technique"] += "; exhaustive TLC model check MC_Lazy (Compile.tla on VM.tla vs Eval.tla)"
CHECKS["C09"]["text"] += (" Clock: every chain of up to three wrappers (call argument, macro body, f-string, list, index, coalesce, ?:, bound function) around now()/timestamp() "
                          "must keep every live clock call in the emitted code (TLC counts them in all nested blocks) and tick between two executions.")
CHECKS["C09"]["note"] = "Trusted: rendering of values as literals (checked by C13), TLC, a 3 ms sleep advancing the clock."
CHECKS["C10"]["text"] += (" The VM's own bounds checks: thousands of instruction sequences no compiler emitted (all small PUSH/JMPC families, random forward-jumping sequences, real programs with one jump "
                          "pushed past the end) are executed through Program::new + exec and by spec/VM.tla; whenever the model run leaves the block the real run must be an error (spec/Trace_Inject.tla). "
                          "Executed paths: the recorded interpreter trace must keep the pc inside the block and strictly increasing, with operands present for every instruction (spec/Trace_VM.tla).")
CHECKS["C10"]["note"] = "Trusted: the structural projection of ByteCode to JSON; the cfg(rscel_verif) tracer records the stack before each instruction."
CHECKS["C10"]["technique"] += "; TLA+ stack machine (spec/VM.tla) vs real execution of injected bytecode (spec/Trace_Inject.tla); trace invariants over the recorded interpreter steps (spec/Trace_VM.tla)"
CHECKS["C12"]["text"] += (" Cycles of length 1 and 2 through 16 referencing constructs (all macros, list and map receivers), also under ||, coalesce and has, must end in an error (law attached by the generator); "
                          "the recorded interpreter trace must show loop iterations sharing one depth count.")
CHECKS["C01"]["text"] += " Reference cycles through every referencing construct run in child processes on 8 MB and 2 MB stacks and must not die."
CHECKS["C11"]["text"] += (" Trace law: two executions of one program name under equal recorded programs and equal recorded bindings return equal outcomes, whichever objects hold them "
                          "(probe histories compile one source into three contexts and bind one map into three binding objects).")
