----------------------------- MODULE Trace_Sql -----------------------------
(***************************************************************************)
(* Validation of recorded CEL -> SQL translations (C20): the emitted text *)
(* is lexed and parsed by Sql.tla, independently of the translator, and   *)
(* the resulting tree must correspond to the CEL tree; untranslatable     *)
(* constructs must be reported as unsupported; nothing may panic.          *)
(***************************************************************************)
EXTENDS Sql, TLC, Json, IOUtils

Rec == ndJsonDeserialize(IOEnv.TRACE)
VARIABLES l
Init == l = 1

Verdict(r) ==
    IF r.out.o = "crash" THEN "crash"
    ELSE IF r.out.o = "nocompile" THEN "ok"
    ELSE IF ~Translatable(r.want) THEN (IF r.out.o = "unsupported" THEN "ok" ELSE "untranslatable-construct-translated")
    ELSE IF r.out.o = "unsupported" THEN "translatable-construct-unsupported"
    ELSE LET toks == SqlLex(r.out.cps) IN
         IF \E i \in 1..Len(toks) : toks[i].k = "unterminated" THEN "sql-unterminated-string"
         ELSE IF \E i \in 1..Len(toks) : toks[i].k = "comment" THEN "sql-contains-comment"
         ELSE LET p == SqlParse(toks) IN
              IF SIsBad(p) THEN "sql-does-not-parse"
              ELSE IF ~Corr(p, r.want) THEN "sql-tree-differs" ELSE "ok"

Step == /\ l <= Len(Rec)
        /\ LET v == Verdict(Rec[l]) IN IF v = "ok" THEN TRUE ELSE PrintT(<<"VERDICT", Rec[l].id, v>>)
        /\ l' = l + 1
Done == /\ l = Len(Rec) + 1
        /\ PrintT(<<"SUMMARY", Len(Rec), 0, Len(Rec), 0>>)
        /\ l' = l + 1
Next == Step \/ Done
=============================================================================
