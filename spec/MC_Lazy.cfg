CONSTANT W = 64
CONSTANT Levels = 1
INIT Init
NEXT Next
INVARIANT Inv
INVARIANT InvF
CHECK_DEADLOCK FALSE
