---------------------------- MODULE Trace_Parse ----------------------------
(***************************************************************************)
(* Validation of recorded compilations against the grammar (C02, C18):    *)
(* the tokens the real tokenizer produced are parsed by Grammar!Parse and *)
(* the result must be the syntax tree the implementation exposes - shape, *)
(* operators, literals and the span of every node; a source the grammar   *)
(* rejects must be a syntax error and vice versa; the generator's         *)
(* intended tree must come back whatever parentheses and whitespace the   *)
(* rendering added; token spans are increasing and inside the source,     *)
(* each spanned text re-lexes to the same token and each spanned          *)
(* sub-expression compiles to the same subtree; error locations lie       *)
(* inside the source.                                                      *)
(***************************************************************************)
EXTENDS Grammar, TLC, Json, IOUtils, FiniteSets

Rec == ndJsonDeserialize(IOEnv.TRACE)
VARIABLES l
Init == l = 1

Has(r, f) == f \in DOMAIN r

(* source geometry: lines are separated by newline (10); columns count characters *)
RECURSIVE LineLens(_, _, _, _)
LineLens(src, i, cur, acc) == IF i > Len(src) THEN Append(acc, cur)
                              ELSE IF src[i] = 10 THEN LineLens(src, i + 1, 0, Append(acc, cur))
                              ELSE LineLens(src, i + 1, cur + 1, acc)
Lens(src) == LineLens(src, 1, 0, <<>>)
InSource(lens, line, col) == line >= 0 /\ line < Len(lens) /\ col >= 0 /\ col <= lens[line + 1]
RECURSIVE SumTo(_, _)
SumTo(lens, n) == IF n = 0 THEN 0 ELSE lens[n] + 1 + SumTo(lens, n - 1)
Off(lens, line, col) == SumTo(lens, line) + col + 1          \* 1-based index of the character at (line, col)
PosLe(a1, a2, b1, b2) == a1 < b1 \/ (a1 = b1 /\ a2 <= b2)

RECURSIVE Strip(_), StripSeq(_, _)
StripSeq(xs, i) == IF i > Len(xs) THEN <<>> ELSE <<Strip(xs[i])>> \o StripSeq(xs, i + 1)
Strip(t) ==
    CASE t.k = "paren" -> Strip(t.e)
      [] t.k = "un"   -> [t EXCEPT !.e = Strip(t.e)]
      [] t.k = "bin"  -> [t EXCEPT !.l = Strip(t.l), !.r = Strip(t.r)]
      [] t.k = "tern" -> [t EXCEPT !.c = Strip(t.c), !.a = Strip(t.a), !.b = Strip(t.b)]
      [] t.k = "list" -> [t EXCEPT !.es = StripSeq(t.es, 1)]
      [] t.k = "map"  -> [t EXCEPT !.kv = [i \in 1..Len(t.kv) |-> <<Strip(t.kv[i][1]), Strip(t.kv[i][2])>>]]
      [] t.k = "sel"  -> [t EXCEPT !.e = Strip(t.e)]
      [] t.k = "idx"  -> [t EXCEPT !.e = Strip(t.e), !.i = Strip(t.i)]
      [] t.k = "call" -> [t EXCEPT !.args = StripSeq(t.args, 1)]
      [] t.k = "mcall" -> [t EXCEPT !.r = Strip(t.r), !.args = StripSeq(t.args, 1)]
      [] t.k = "callx" -> [t EXCEPT !.e = Strip(t.e), !.args = StripSeq(t.args, 1)]
      [] t.k = "match" -> [t EXCEPT !.e = Strip(t.e),
                                    !.cases = [i \in 1..Len(t.cases) |->
                                       [p |-> IF t.cases[i].p.pk = "cmp" THEN [t.cases[i].p EXCEPT !.v = Strip(t.cases[i].p.v)] ELSE t.cases[i].p,
                                        e |-> Strip(t.cases[i].e)]]]
      [] OTHER -> t

(* find the node with a given span *)
RECURSIVE Find(_, _), FindIn(_, _, _)
FindIn(xs, i, s) == IF i > Len(xs) THEN Bad ELSE LET r == Find(xs[i], s) IN IF IsBad(r) THEN FindIn(xs, i + 1, s) ELSE r
Find(t, s) ==
    IF "sp" \in DOMAIN t /\ t.sp = s /\ t.k # "paren" THEN t
    ELSE CASE t.k \in {"paren", "un", "sel"} -> Find(t.e, s)
           [] t.k = "bin"  -> FindIn(<<t.l, t.r>>, 1, s)
           [] t.k = "tern" -> FindIn(<<t.c, t.a, t.b>>, 1, s)
           [] t.k = "list" -> FindIn(t.es, 1, s)
           [] t.k = "map"  -> FindIn([i \in 1..(2 * Len(t.kv)) |-> t.kv[(i + 1) \div 2][IF i % 2 = 1 THEN 1 ELSE 2]], 1, s)
           [] t.k = "idx"  -> FindIn(<<t.e, t.i>>, 1, s)
           [] t.k = "call" -> FindIn(t.args, 1, s)
           [] t.k = "mcall" -> FindIn(<<t.r>> \o t.args, 1, s)
           [] t.k = "callx" -> FindIn(<<t.e>> \o t.args, 1, s)
           [] t.k = "match" -> FindIn(<<t.e>> \o [i \in 1..Len(t.cases) |-> t.cases[i].e], 1, s)
           [] OTHER -> Bad

Exotic(ts) == \E i \in 1..Len(ts) : (ts[i].k = "fstr" /\ \E j \in 1..Len(ts[i].v) : "xbad" \in DOMAIN ts[i].v[j]) \/ (ts[i].k = "int" /\ Len(ts[i].v.m) >= 5 /\ ts[i].v.m[5] >= 8)

(* an embedded text of an f-string that starts with a well-formed expression and goes on (the recorded finding of C02) *)
TrailingInSegment(ts) ==
    \E i \in 1..Len(ts) : ts[i].k = "fstr" /\ \E j \in 1..Len(ts[i].v) :
        /\ "xt" \in DOMAIN ts[i].v[j]
        /\ LET q == PExpr(ts[i].v[j].xt, 1) IN ~IsBad(q) /\ q.i <= Len(ts[i].v[j].xt)

(* the first failing check of a record, or "ok" *)
Verdict(r) ==
    LET lens == Lens(r.src)
        ts   == r.tokens
        lexed == ~Has(r, "tokerr")
        p    == IF lexed THEN Parse(ts) ELSE SyntaxErr
    IN
    IF r.compile.o = "crash" THEN "crash"
    ELSE IF Has(r, "exec") /\ r.exec.o = "crash" THEN "exec-crash"
    ELSE IF r.compile.o = "err" /\ r.compile.c # "syntax" THEN "compile-error-not-syntax"
    ELSE IF r.compile.o = "err" /\ ~InSource(lens, r.compile.line, r.compile.col) THEN "error-location-outside-source"
    ELSE IF \E i \in 1..Len(ts) : ~(InSource(lens, ts[i].sp[1], ts[i].sp[2]) /\ InSource(lens, ts[i].sp[3], ts[i].sp[4])) THEN "token-span-outside-source"
    ELSE IF \E i \in 1..Len(ts) : ~(PosLe(ts[i].sp[1], ts[i].sp[2], ts[i].sp[3], ts[i].sp[4]) /\ <<ts[i].sp[1], ts[i].sp[2]>> # <<ts[i].sp[3], ts[i].sp[4]>>) THEN "token-span-empty-or-reversed"
    ELSE IF \E i \in 1..(Len(ts) - 1) : ~PosLe(ts[i].sp[3], ts[i].sp[4], ts[i + 1].sp[1], ts[i + 1].sp[2]) THEN "token-spans-overlap"
    ELSE IF Has(r, "relex") /\ (\E i \in 1..Len(r.relex) : ~(Len(r.relex[i]) = 1 /\ r.relex[i][1].k = ts[i].k /\ r.relex[i][1].v = ts[i].v)) THEN "token-does-not-relex"
    ELSE IF lexed /\ ~Exotic(ts) /\ p.k = "SYNTAX" /\ r.compile.o = "ok" /\ TrailingInSegment(ts) THEN "fstring-segment-with-trailing-tokens-compiled"
    ELSE IF lexed /\ ~Exotic(ts) /\ p.k = "SYNTAX" /\ r.compile.o = "ok" THEN "grammar-rejects-but-compiled"
    ELSE IF lexed /\ ~Exotic(ts) /\ p.k # "SYNTAX" /\ r.compile.o # "ok" THEN "grammar-accepts-but-syntax-error"
    ELSE IF Has(r, "must") /\ r.must = "ok" /\ r.compile.o # "ok" THEN "well-formed-source-rejected"
    ELSE IF Has(r, "must") /\ r.must = "syntax" /\ r.compile.o = "ok" THEN "ill-formed-source-accepted"
    ELSE IF r.compile.o = "ok" /\ Has(r, "ast") /\ p.k # "SYNTAX" /\ ~SameTree(p, r.ast, FALSE) THEN "tree-shape"
    ELSE IF r.compile.o = "ok" /\ Has(r, "ast") /\ p.k # "SYNTAX" /\ ~SameTree(p, r.ast, TRUE) THEN "tree-spans"
    ELSE IF r.compile.o = "ok" /\ Has(r, "want") /\ p.k # "SYNTAX" /\ ~SameTree(Strip(p), r.want, FALSE) THEN "not-the-intended-tree"
    ELSE IF r.compile.o = "ok" /\ Has(r, "subs") /\ Has(r, "ast") /\
            (\E i \in 1..Len(r.subs) : LET n == Find(r.ast, r.subs[i].sp)
                                       IN ~IsBad(n) /\ ~(r.subs[i].compile.o = "ok" /\ SameTree(Strip(r.subs[i].ast), Strip(n), FALSE) /\ SameTree(Strip(n), Strip(r.subs[i].ast), FALSE)))
         THEN "spanned-text-is-not-the-subtree"
    ELSE "ok"

Step == /\ l <= Len(Rec)
        /\ LET v == Verdict(Rec[l]) IN IF v = "ok" THEN TRUE ELSE PrintT(<<"VERDICT", Rec[l].id, v>>)
        /\ l' = l + 1
Done == /\ l = Len(Rec) + 1
        /\ PrintT(<<"SUMMARY", Len(Rec), 0, Len(Rec), 0>>)
        /\ l' = l + 1
Next == Step \/ Done
=============================================================================
