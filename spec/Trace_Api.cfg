CONSTANT W = 64
INIT Init
NEXT Next
CHECK_DEADLOCK FALSE
