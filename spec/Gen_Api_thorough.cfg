CONSTANT W = 64
CONSTANT L = 7
INIT Init
NEXT Next
INVARIANT ExecFunctional
PROPERTY PureStep
PROPERTY CloneStep
CHECK_DEADLOCK FALSE
