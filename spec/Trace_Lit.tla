----------------------------- MODULE Trace_Lit -----------------------------
(***************************************************************************)
(* Validation of literal evaluation (C13): every recorded line holds the  *)
(* characters of one literal and what compiling and evaluating it gave.   *)
(* TLC re-lexes the characters with Lexer!LitDenote and requires exactly  *)
(* the denoted value (bit for bit), or a syntax error where the spelling  *)
(* must be rejected.                                                       *)
(***************************************************************************)
EXTENDS Lexer, TLC, Json, IOUtils

Rec == ndJsonDeserialize(IOEnv.TRACE)
VARIABLES l, nsingle
Init == l = 1 /\ nsingle = 0

Verdict(r) ==
    LET d == LitDenote(r.chars) IN
    IF r.out.o = "crash" THEN "crash"
    ELSE IF d.k = "ok" THEN
         (IF "want" \in DOMAIN r /\ r.want # d.v THEN "generator-disagrees-with-spec"
          ELSE LET exp == IF r.neg THEN Strict1(Neg, Ok(d.v)) ELSE Ok(d.v)
               IN IF Matches(r.out, exp) THEN "ok"
                  ELSE IF r.out.o = "ok" THEN "wrong-value" ELSE "rejected-valid-literal")
    ELSE IF d.k = "reject" THEN (IF r.out.o = "err" /\ r.out.c = "syntax" THEN "ok" ELSE "accepted-invalid-literal")
    ELSE "ok"

Step == /\ l <= Len(Rec)
        /\ LET v == Verdict(Rec[l]) IN IF v = "ok" THEN TRUE ELSE PrintT(<<"VERDICT", Rec[l].id, v>>)
        /\ nsingle' = nsingle + (IF LitDenote(Rec[l].chars).k = "unknown" THEN 0 ELSE 1)
        /\ l' = l + 1
Done == /\ l = Len(Rec) + 1
        /\ PrintT(<<"SUMMARY", Len(Rec), 0, nsingle, Len(Rec) - nsingle>>)
        /\ l' = l + 1 /\ UNCHANGED nsingle
Next == Step \/ Done
=============================================================================
