-------------------------------- MODULE Time --------------------------------
(***************************************************************************)
(* Civil time and units (C16).  An instant is a number of nanoseconds     *)
(* since 1970-01-01T00:00:00Z (Big); a zone contributes an offset in      *)
(* seconds that is an *input* of the specification (the time-zone         *)
(* database is not modelled).  Calendar fields are those of the proleptic *)
(* Gregorian calendar; bases as the property states them: month, day of   *)
(* month, day of year and day of week are zero based (Sunday = 0), date   *)
(* is one based.  Unit conversion is exact rational arithmetic compared   *)
(* with the observed double under a relative tolerance.                    *)
(***************************************************************************)
EXTENDS Strings

(* floor division of a Big by a positive machine integer divisor given as magnitude *)
BFloorDiv(a, dm) == LET d == MDivMod(a.m, dm)
                    IN IF a.s >= 0 THEN BMk(1, d.q)
                       ELSE IF d.r = <<>> THEN BMk(-1, d.q) ELSE BMk(-1, MAdd(d.q, <<1>>))
BFloorMod(a, dm) == BSub(a, BMul(BFloorDiv(a, dm), [s |-> 1, m |-> dm]))      \* in 0 .. d-1

NsPerSec == MFromDigits(<<1,0,0,0,0,0,0,0,0,0>>, 10)
SecPerDay == MFromNat(86400)

(* days since 1970-01-01 -> [y, m (1..12), d (1..31)]   (Howard Hinnant's civil_from_days) *)
FloorDivI(a, b) == IF a >= 0 THEN a \div b ELSE -((-a + b - 1) \div b)
CivilFromDays(z0) ==
    LET z   == z0 + 719468
        era == FloorDivI(z, 146097)
        doe == z - era * 146097
        yoe == (doe - doe \div 1460 + doe \div 36524 - doe \div 146096) \div 365
        y   == yoe + era * 400
        doy == doe - (365 * yoe + yoe \div 4 - yoe \div 100)
        mp  == (5 * doy + 2) \div 153
        d   == doy - (153 * mp + 2) \div 5 + 1
        m   == IF mp < 10 THEN mp + 3 ELSE mp - 9
    IN [y |-> IF m <= 2 THEN y + 1 ELSE y, m |-> m, d |-> d]
DaysFromCivil(y0, m, d) ==
    LET y   == IF m <= 2 THEN y0 - 1 ELSE y0
        era == FloorDivI(y, 400)
        yoe == y - era * 400
        doy == (153 * (IF m > 2 THEN m - 3 ELSE m + 9) + 2) \div 5 + d - 1
        doe == yoe * 365 + yoe \div 4 - yoe \div 100 + doy
    IN era * 146097 + doe - 719468
IsLeap(y) == (y % 4 = 0 /\ y % 100 # 0) \/ y % 400 = 0
DaysInMonth(y, m) == IF m = 2 THEN (IF IsLeap(y) THEN 29 ELSE 28) ELSE IF m \in {4, 6, 9, 11} THEN 30 ELSE 31

(* all fields of the instant ns shifted by off seconds *)
Fields(ns, off) ==
    LET secs  == BAdd(BFloorDiv(ns, NsPerSec), BFromInt(off))
        nanos == BToInt(BFloorDiv(BFloorMod(ns, NsPerSec), MFromNat(1000000)))          \* milliseconds 0..999
        days  == BToInt(BFloorDiv(secs, SecPerDay))
        sod   == BToInt(BFloorMod(secs, SecPerDay))
        c     == CivilFromDays(days)
    IN [year |-> c.y, month0 |-> c.m - 1, date |-> c.d, dom0 |-> c.d - 1,
        doy0 |-> days - DaysFromCivil(c.y, 1, 1),
        dow0 |-> (((days % 7) + 11) % 7),          \* 1970-01-01 was a Thursday (4)
        hour |-> sod \div 3600, minute |-> (sod % 3600) \div 60, second |-> sod % 60, milli |-> nanos]

TsAccessor(f, ns, off) ==
    LET x == Fields(ns, off) IN
    CASE f = "getFullYear" -> x.year [] f = "getMonth" -> x.month0 [] f = "getDate" -> x.date
      [] f = "getDayOfMonth" -> x.dom0 [] f = "getDayOfYear" -> x.doy0 [] f = "getDayOfWeek" -> x.dow0
      [] f = "getHours" -> x.hour [] f = "getMinutes" -> x.minute [] f = "getSeconds" -> x.second
      [] f = "getMilliseconds" -> x.milli
TsAccessorNames == {"getFullYear", "getMonth", "getDate", "getDayOfMonth", "getDayOfYear", "getDayOfWeek",
                    "getHours", "getMinutes", "getSeconds", "getMilliseconds"}
(* durations: total whole hours / minutes / seconds (toward zero) and the sub-second millisecond part *)
DurAccessor(f, ns) ==
    CASE f = "getHours"   -> BDivT(ns, BMul([s |-> 1, m |-> NsPerSec], BFromInt(3600)))
      [] f = "getMinutes" -> BDivT(ns, BMul([s |-> 1, m |-> NsPerSec], BFromInt(60)))
      [] f = "getSeconds" -> BDivT(ns, [s |-> 1, m |-> NsPerSec])
      [] f = "getMilliseconds" -> BDivT(BRemT(ns, [s |-> 1, m |-> NsPerSec]), BFromInt(1000000))
DurAccessorNames == {"getHours", "getMinutes", "getSeconds", "getMilliseconds"}

UTCName == <<85, 84, 67>>

(* RFC 3339:  YYYY-MM-DDTHH:MM:SS[.f+](Z|+HH:MM|-HH:MM)  ->  [ok, ns] *)
D2(s, i) == (s[i] - 48) * 10 + (s[i + 1] - 48)
IsD(s, i) == i <= Len(s) /\ s[i] >= 48 /\ s[i] <= 57
RECURSIVE FracEnd(_, _)
FracEnd(s, i) == IF IsD(s, i) THEN FracEnd(s, i + 1) ELSE i
ParseRfc3339(s) ==
    IF Len(s) < 20 \/ ~(\A i \in {1, 2, 3, 4, 6, 7, 9, 10, 12, 13, 15, 16, 18, 19} : IsD(s, i))
       \/ s[5] # 45 \/ s[8] # 45 \/ ~(s[11] \in {84, 116}) \/ s[14] # 58 \/ s[17] # 58
    THEN [ok |-> FALSE]
    ELSE LET y == D2(s, 1) * 100 + D2(s, 3)  mo == D2(s, 6)  d == D2(s, 9)
             h == D2(s, 12)  mi == D2(s, 15)  se == D2(s, 18)
             hasFrac == s[20] = 46
             fe == IF hasFrac THEN FracEnd(s, 21) ELSE 20
             nfr == IF hasFrac THEN fe - 21 ELSE 0
             fracNs == IF nfr = 0 THEN <<>>
                       ELSE LET ds == [k \in 1..9 |-> IF k <= nfr THEN s[20 + k] - 48 ELSE 0] IN MFromDigits(ds, 10)
             zi == fe
             isZ == zi = Len(s) /\ s[zi] \in {90, 122}
             isOff == zi + 5 = Len(s) /\ s[zi] \in {43, 45} /\ IsD(s, zi + 1) /\ IsD(s, zi + 2) /\ s[zi + 3] = 58 /\ IsD(s, zi + 4) /\ IsD(s, zi + 5)
             offs == IF isOff THEN (D2(s, zi + 1) * 3600 + D2(s, zi + 4) * 60) * (IF s[zi] = 45 THEN -1 ELSE 1) ELSE 0
             valid == mo >= 1 /\ mo <= 12 /\ d >= 1 /\ d <= DaysInMonth(y, mo) /\ h <= 23 /\ mi <= 59 /\ se <= 59
                      /\ (hasFrac => nfr >= 1 /\ nfr <= 9) /\ (isZ \/ isOff) /\ (isOff => D2(s, zi + 1) <= 23 /\ D2(s, zi + 4) <= 59)
         IN IF ~valid THEN [ok |-> FALSE]
            ELSE LET secs == BSub(BAdd(BMul(BFromInt(DaysFromCivil(y, mo, d)), BFromInt(86400)), BFromInt(h * 3600 + mi * 60 + se)), BFromInt(offs))
                 IN [ok |-> TRUE, ns |-> BAdd(BMul(secs, [s |-> 1, m |-> NsPerSec]), BMk(1, fracNs))]

----------------------------------------------------------------------------
(* units: value in the category's base unit = x * num / den (+ offset for temperatures) *)
Ratio(n, d) == [n |-> MFromDigits(n, 10), d |-> MFromDigits(d, 10)]
UnitTable == [
  kg |-> [c |-> "mass", f |-> Ratio(<<1>>, <<1>>)], g |-> [c |-> "mass", f |-> Ratio(<<1>>, <<1,0,0,0>>)],
  mg |-> [c |-> "mass", f |-> Ratio(<<1>>, <<1,0,0,0,0,0,0>>)], lb |-> [c |-> "mass", f |-> Ratio(<<4,5,3,5,9,2,3,7>>, <<1,0,0,0,0,0,0,0,0>>)],
  oz |-> [c |-> "mass", f |-> Ratio(<<2,8,3,4,9,5,2,3,1,2,5>>, <<1,0,0,0,0,0,0,0,0,0,0,0,0>>)],
  stone |-> [c |-> "mass", f |-> Ratio(<<6,3,5,0,2,9,3,1,8>>, <<1,0,0,0,0,0,0,0,0>>)],
  ton |-> [c |-> "mass", f |-> Ratio(<<1,0,0,0>>, <<1>>)],
  l |-> [c |-> "volume", f |-> Ratio(<<1>>, <<1,0,0,0>>)], ml |-> [c |-> "volume", f |-> Ratio(<<1>>, <<1,0,0,0,0,0,0>>)],
  gal |-> [c |-> "volume", f |-> Ratio(<<3,7,8,5,4,1,1,7,8,4>>, <<1,0,0,0,0,0,0,0,0,0,0,0,0>>)],
  qt |-> [c |-> "volume", f |-> Ratio(<<9,4,6,3,5,2,9,4,6>>, <<1,0,0,0,0,0,0,0,0,0,0,0,0>>)],
  pt |-> [c |-> "volume", f |-> Ratio(<<4,7,3,1,7,6,4,7,3>>, <<1,0,0,0,0,0,0,0,0,0,0,0,0>>)],
  cup |-> [c |-> "volume", f |-> Ratio(<<2,3,6,5,8,8,2,3,6,5>>, <<1,0,0,0,0,0,0,0,0,0,0,0,0,0>>)],
  m3 |-> [c |-> "volume", f |-> Ratio(<<1>>, <<1>>)],
  ft3 |-> [c |-> "volume", f |-> Ratio(<<2,8,3,1,6,8,4,6,5,9,2>>, <<1,0,0,0,0,0,0,0,0,0,0,0,0>>)],
  mps |-> [c |-> "speed", f |-> Ratio(<<1>>, <<1>>)], kph |-> [c |-> "speed", f |-> Ratio(<<1,0>>, <<3,6>>)],
  mph |-> [c |-> "speed", f |-> Ratio(<<4,4,7,0,4>>, <<1,0,0,0,0,0>>)], kn |-> [c |-> "speed", f |-> Ratio(<<1,8,5,2>>, <<3,6,0,0>>)],
  fps |-> [c |-> "speed", f |-> Ratio(<<3,0,4,8>>, <<1,0,0,0,0>>)] ]
(* unit spellings (code points are not needed: the harness passes the table key with the case) *)

(* |obs - x * fa/fb| <= tol * |x * fa/fb|  with obs, x doubles given exactly as sig * 2^ex; tol = 1/10^k *)
WithinTol(obs, x, fa, fb, k) ==
    \* obs = so * 2^eo, x = sx * 2^ex ; exact = sx*2^ex * fa.n*fb.d / (fa.d*fb.n)
    LET so == DSig(obs)  eo == DEx(obs)  sx == DSig(x)  ex == DEx(x)
        num == MMul(MMul(sx, fa.n), fb.d)          \* exact = num/den * 2^ex
        den == MMul(fa.d, fb.n)
        mn  == IMin(eo, ex)
        A   == MMul(MShl(so, eo - mn), den)        \* obs * den   (scaled by 2^-mn)
        B   == MShl(num, ex - mn)                  \* exact * den (same scale)
        diff == IF MCmp(A, B) >= 0 THEN MSub(A, B) ELSE MSub(B, A)
    IN MCmp(MMul(diff, MPow(<<10>>, k)), B) <= 0
=============================================================================
