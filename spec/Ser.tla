-------------------------------- MODULE Ser --------------------------------
(***************************************************************************)
(* Serialized programs (C19).  Two things are specified:                   *)
(*  1. the variant tables of the derived (de)serializers: a variant is     *)
(*     written with its position among *all* variants of the enum and read *)
(*     back by position among the variants that are *not skipped*; a       *)
(*     format that encodes variants by index (bincode) round-trips exactly *)
(*     when those two numberings agree on every variant that can occur;    *)
(*  2. what a round trip must preserve, judged on recordings: the source,  *)
(*     the parameter list, and for every binding the outcome - the same    *)
(*     value or the same class of error.                                   *)
(***************************************************************************)
EXTENDS Integers, Sequences, FiniteSets

(* CelValue as declared in rscel/src/types/cel_value.rs; skip = not (de)serialized *)
CelValueVariants == <<
  [n |-> "Int", skip |-> FALSE], [n |-> "UInt", skip |-> FALSE], [n |-> "Float", skip |-> FALSE],
  [n |-> "Bool", skip |-> FALSE], [n |-> "String", skip |-> FALSE], [n |-> "Bytes", skip |-> FALSE],
  [n |-> "List", skip |-> FALSE], [n |-> "Map", skip |-> FALSE], [n |-> "Null", skip |-> FALSE],
  [n |-> "Ident", skip |-> FALSE], [n |-> "Type", skip |-> FALSE], [n |-> "TimeStamp", skip |-> FALSE],
  [n |-> "Duration", skip |-> FALSE], [n |-> "ByteCode", skip |-> FALSE], [n |-> "Err", skip |-> FALSE],
  [n |-> "Message", skip |-> TRUE], [n |-> "Enum", skip |-> TRUE], [n |-> "Dyn", skip |-> TRUE] >>

(* the same table before the repair: Err declared after the skipped variants *)
CelValueVariantsPinned == <<
  [n |-> "Int", skip |-> FALSE], [n |-> "UInt", skip |-> FALSE], [n |-> "Float", skip |-> FALSE],
  [n |-> "Bool", skip |-> FALSE], [n |-> "String", skip |-> FALSE], [n |-> "Bytes", skip |-> FALSE],
  [n |-> "List", skip |-> FALSE], [n |-> "Map", skip |-> FALSE], [n |-> "Null", skip |-> FALSE],
  [n |-> "Ident", skip |-> FALSE], [n |-> "Type", skip |-> FALSE], [n |-> "TimeStamp", skip |-> FALSE],
  [n |-> "Duration", skip |-> FALSE], [n |-> "ByteCode", skip |-> FALSE],
  [n |-> "Message", skip |-> TRUE], [n |-> "Enum", skip |-> TRUE], [n |-> "Dyn", skip |-> TRUE], [n |-> "Err", skip |-> FALSE] >>

SerIndex(tab, i) == i - 1                                                   \* position among all variants
DeIndex(tab, i) == Cardinality({j \in 1..(i - 1) : ~tab[j].skip})            \* position among the kept ones
IndexRoundTrips(tab) == \A i \in 1..Len(tab) : ~tab[i].skip => SerIndex(tab, i) = DeIndex(tab, i)
BrokenVariants(tab) == {tab[i].n : i \in {j \in 1..Len(tab) : ~tab[j].skip /\ SerIndex(tab, j) # DeIndex(tab, j)}}
=============================================================================
