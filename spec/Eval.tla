------------------------------- MODULE Eval -------------------------------
(***************************************************************************)
(* Reference semantics of rscel's CEL dialect: a lazy big-step evaluator  *)
(* over expression trees (C05-C09, C12, and through Builtins C14-C16).    *)
(*                                                                         *)
(* Eval(t, env) = [o |-> abstract outcome, log |-> sequence of the names  *)
(* of instrumented functions in call order, lk |-> is that log certain].  *)
(*                                                                         *)
(* env = [vars  : name -> value          (the caller's bindings + loop     *)
(*                                         variables, innermost wins),     *)
(*        progs : name -> tree           (the programs stored in the       *)
(*                                         context),                       *)
(*        funcs : name -> outcome        (instrumented functions),         *)
(*        u     : evaluation contexts entered on this path (program       *)
(*                bodies, call arguments, macro bodies, ...),              *)
(*        h     : program references entered on this path,                 *)
(*        path  : the <<program, vars>> pairs being evaluated]             *)
(***************************************************************************)
EXTENDS Builtins

R(o, log, lk) == [o |-> o, log |-> log, lk |-> lk]
Pure(o) == R(o, <<>>, TRUE)

TypeNames == {"bool", "int", "uint", "float", "double", "string", "bytes", "type",
              "timestamp", "duration", "null_type", "dyn"}
CanonType(n) == IF n = "double" THEN "float" ELSE IF n = "null_type" THEN "null" ELSE n
MacroNames == {"all", "exists", "exists_one", "filter", "map", "reduce"}

GuaranteedUnits == 16     \* nesting that must evaluate
MaxHops         == 64     \* program references beyond which an error is required

Bind(env, x, v) == [env EXCEPT !.vars = [n \in (DOMAIN env.vars) \cup {x} |-> IF n = x THEN v ELSE env.vars[n]]]
Deeper(env) == [env EXCEPT !.u = env.u + 1]
(* the result of a context entered at nesting u: beyond the guaranteed nesting it may also be a depth failure *)
AtDepth(env, r) == IF env.u > GuaranteedUnits THEN R(Weaken(r.o), Append(r.log, "#depth"), FALSE) ELSE r

RECURSIVE Eval(_, _), EvalElems(_, _, _, _), EvalArgs(_, _, _, _), EvalPairs(_, _, _, _),
          Fold(_, _, _, _, _, _, _), Coalesce(_, _, _, _, _), Segs(_, _, _, _, _), Cases(_, _, _, _, _),
          Reduce(_, _, _, _, _, _, _, _)

(* evaluate all elements in order (eager); outs holds every outcome *)
EvalElems(ts, i, env, acc) ==
    IF i > Len(ts) THEN acc
    ELSE LET r == Eval(ts[i], env)
         IN EvalElems(ts, i + 1, env,
                      [outs |-> Append(acc.outs, r.o), log |-> acc.log \o r.log, lk |-> acc.lk /\ r.lk])

(* evaluate call arguments left to right, each in its own context; stop at the first failure *)
EvalArgs(ts, i, env, acc) ==
    IF i > Len(ts) THEN acc
    ELSE LET r == AtDepth(Deeper(env), Eval(ts[i], Deeper(env)))
             a2 == [outs |-> Append(acc.outs, r.o), log |-> acc.log \o r.log, lk |-> acc.lk /\ r.lk, fail |-> acc.fail]
         IN IF r.o.o = "err" THEN [a2 EXCEPT !.fail = r.o]
            ELSE IF r.o.o = "ok" THEN EvalArgs(ts, i + 1, env, a2)
            ELSE EvalArgs(ts, i + 1, env, [a2 EXCEPT !.lk = FALSE])
NoArgs == [outs |-> <<>>, log |-> <<>>, lk |-> TRUE, fail |-> AnyOut]   \* fail = AnyOut means "none"

AllOk(outs) == \A i \in 1..Len(outs) : outs[i].o = "ok"
Vals(outs) == [i \in 1..Len(outs) |-> outs[i].v]

(* map literal entries in order; no property orders an entry's key against its value *)
EvalPairs(kv, i, env, acc) ==
    IF i > Len(kv) THEN acc
    ELSE LET k == Eval(kv[i][1], env)
             v == Eval(kv[i][2], env)
         IN EvalPairs(kv, i + 1, env,
                      [ks |-> Append(acc.ks, k.o), vs |-> Append(acc.vs, v.o),
                       log |-> acc.log \o k.log \o v.log, lk |-> acc.lk /\ k.lk /\ v.lk /\ (k.log = <<>> \/ v.log = <<>>)])

(* comprehension macros over a list (C07): kind, elements, index, loop variable, body trees, env, state *)
Fold(kind, xs, i, x, bodies, env, st) ==
    IF i > Len(xs)
    THEN R(CASE kind = "all" -> Ok(VTrue)
             [] kind = "exists" -> Ok(VFalse)
             [] kind = "exists_one" -> Ok(VBool(st.n = 1))
             [] OTHER -> Ok(VList(st.acc)), st.log, st.lk)
    ELSE LET e2 == Deeper(Bind(env, x, xs[i]))
             p  == AtDepth(e2, Eval(bodies[1], e2))
             lg == st.log \o p.log
         IN IF p.o.o = "err" THEN R(p.o, lg, st.lk /\ p.lk)
            ELSE IF p.o.o # "ok" THEN R(AnyOut, lg, FALSE)
            ELSE LET tv == Truthy(p.o.v) IN
              CASE kind = "all" -> IF tv THEN Fold(kind, xs, i + 1, x, bodies, env, [st EXCEPT !.log = lg, !.lk = st.lk /\ p.lk])
                                   ELSE R(Ok(VFalse), lg, st.lk /\ p.lk)
                [] kind = "exists" -> IF tv THEN R(Ok(VTrue), lg, st.lk /\ p.lk)
                                      ELSE Fold(kind, xs, i + 1, x, bodies, env, [st EXCEPT !.log = lg, !.lk = st.lk /\ p.lk])
                [] kind = "exists_one" ->
                       IF tv /\ st.n = 1 THEN R(Ok(VFalse), lg, st.lk /\ p.lk)
                       ELSE Fold(kind, xs, i + 1, x, bodies, env,
                                 [st EXCEPT !.log = lg, !.lk = st.lk /\ p.lk, !.n = IF tv THEN st.n + 1 ELSE st.n])
                [] kind = "filter" ->
                       Fold(kind, xs, i + 1, x, bodies, env,
                            [st EXCEPT !.log = lg, !.lk = st.lk /\ p.lk, !.acc = IF tv THEN Append(st.acc, xs[i]) ELSE st.acc])
                [] kind = "map2" ->
                       Fold(kind, xs, i + 1, x, bodies, env,
                            [st EXCEPT !.log = lg, !.lk = st.lk /\ p.lk, !.acc = Append(st.acc, p.o.v)])
                [] kind = "map3" ->
                       IF ~tv THEN Fold(kind, xs, i + 1, x, bodies, env, [st EXCEPT !.log = lg, !.lk = st.lk /\ p.lk])
                       ELSE LET q == AtDepth(e2, Eval(bodies[2], e2))  lg2 == lg \o q.log
                            IN IF q.o.o = "err" THEN R(q.o, lg2, st.lk /\ p.lk /\ q.lk)
                               ELSE IF q.o.o # "ok" THEN R(AnyOut, lg2, FALSE)
                               ELSE Fold(kind, xs, i + 1, x, bodies, env,
                                         [st EXCEPT !.log = lg2, !.lk = st.lk /\ p.lk /\ q.lk, !.acc = Append(st.acc, q.o.v)])
Fold0 == [log |-> <<>>, lk |-> TRUE, n |-> 0, acc |-> <<>>]

Reduce(xs, i, accN, x, step, env, acc, st) ==
    IF i > Len(xs) THEN R(Ok(acc), st.log, st.lk)
    ELSE LET e2 == Deeper(Bind(Bind(env, x, xs[i]), accN, acc))
             p  == AtDepth(e2, Eval(step, e2))
             lg == st.log \o p.log
         IN IF p.o.o = "err" THEN R(p.o, lg, st.lk /\ p.lk)
            ELSE IF p.o.o # "ok" THEN R(AnyOut, lg, FALSE)
            ELSE Reduce(xs, i + 1, accN, x, step, env, p.o.v, [st EXCEPT !.log = lg, !.lk = st.lk /\ p.lk])

(* coalesce (C08) *)
Coalesce(ts, i, env, log, lk) ==
    IF i > Len(ts) THEN R(Ok(VNull), log, lk)
    ELSE LET e2 == Deeper(env)
             r  == AtDepth(e2, Eval(ts[i], e2))
             lg == log \o r.log
         IN IF r.o.o = "ok" THEN (IF r.o.v = VNull THEN Coalesce(ts, i + 1, env, lg, lk /\ r.lk) ELSE R(r.o, lg, lk /\ r.lk))
            ELSE IF r.o.o = "err" /\ r.o.c = "absent" THEN Coalesce(ts, i + 1, env, lg, lk /\ r.lk)
            ELSE IF r.o.o = "err" /\ r.o.c = "other" THEN R(r.o, lg, lk /\ r.lk)
            ELSE R(AnyOut, lg, FALSE)

(* f-string segments: literal text or string(e) *)
Segs(segs, i, env, acc, st) ==
    IF i > Len(segs) THEN R(Ok(VStr(acc)), st.log, st.lk)
    ELSE IF "s" \in DOMAIN segs[i] THEN Segs(segs, i + 1, env, acc \o segs[i].s, st)
    ELSE LET e2 == Deeper(env)
             r  == AtDepth(e2, Eval(segs[i].e, e2))
             lg == st.log \o r.log
         IN IF r.o.o = "err" THEN R(Err(MergeErr(r.o.c, "other")), lg, FALSE)
            ELSE IF r.o.o # "ok" THEN R(AnyOut, lg, FALSE)
            ELSE LET s == ConvString(r.o.v)
                 IN IF s.o = "ok" THEN Segs(segs, i + 1, env, acc \o s.v.s, [log |-> lg, lk |-> st.lk /\ r.lk])
                    ELSE IF s.o = "err" THEN R(Err("other"), lg, FALSE)
                    ELSE R(AnyOut, lg, FALSE)

(* match cases: first matching pattern decides (C05) *)
Cases(cs, i, v, env, st) ==
    IF i > Len(cs) THEN R(Ok(VNull), st.log, st.lk)
    ELSE LET p == cs[i].p IN
         IF p.pk = "any" THEN LET r == Eval(cs[i].e, env) IN R(r.o, st.log \o r.log, st.lk /\ r.lk)
         ELSE IF p.pk = "type"
         THEN (IF ~(p.n \in TypeNames) THEN R(AnyOut, st.log, FALSE)
               ELSE IF TypeOf(v) = CanonType(p.n)
                    THEN LET r == Eval(cs[i].e, env) IN R(r.o, st.log \o r.log, st.lk /\ r.lk)
                    ELSE Cases(cs, i + 1, v, env, st))
         ELSE LET pv == Eval(p.v, env)
                  lg == st.log \o pv.log
                  c  == IF pv.o.o = "ok" THEN RelOp(p.op, v, pv.o.v) ELSE AnyOut
              IN IF c = Ok(VTrue) THEN LET r == Eval(cs[i].e, env) IN R(r.o, lg \o r.log, st.lk /\ pv.lk /\ r.lk)
                 ELSE IF c = Ok(VFalse) THEN Cases(cs, i + 1, v, env, [log |-> lg, lk |-> st.lk /\ pv.lk])
                 ELSE R(AnyOut, lg, FALSE)

Eval(t, env) ==
    CASE t.k = "lit" -> Pure(Ok(t.v))
      [] t.k = "paren" -> Eval(t.e, env)
      [] t.k = "id" ->
           IF t.n \in TypeNames THEN Pure(Ok(VType(CanonType(t.n))))
           ELSE IF t.n \in DOMAIN env.vars THEN Pure(Ok(env.vars[t.n]))
           ELSE IF t.n \in DOMAIN env.progs
           THEN (IF env.h + 1 > MaxHops \/ (\E q \in env.path : q = <<t.n, env.vars>>)
                 THEN R(Err("other"), <<"#depth">>, FALSE)     \* running out of depth may abort every enclosing evaluation
                 ELSE LET e2 == [env EXCEPT !.u = env.u + 1, !.h = env.h + 1, !.path = env.path \cup {<<t.n, env.vars>>}]
                      IN AtDepth(e2, Eval(env.progs[t.n], e2)))
           ELSE Pure(Err("absent"))
      [] t.k = "un" ->
           LET a == Eval(t.e, env)
               RECURSIVE Rep(_, _)
               Rep(o, n) == IF n = 0 THEN o
                            ELSE Rep(IF t.op = "!" THEN Strict1(Not, o) ELSE Strict1(Neg, o), n - 1)
           IN R(Rep(a.o, t.n), a.log, a.lk)
      [] t.k = "bin" ->
           IF t.op = "||" THEN
              LET a == Eval(t.l, env) IN
              IF a.o.o = "ok" /\ Truthy(a.o.v) THEN R(Ok(VTrue), a.log, a.lk)
              ELSE LET b == Eval(t.r, env)
                       lg == a.log \o b.log
                   IN IF a.o.o \in {"ok", "err"}
                      THEN (IF b.o.o = "ok" THEN (IF Truthy(b.o.v) THEN R(Ok(VTrue), lg, a.lk /\ b.lk)
                                                  ELSE IF a.o.o = "err" THEN R(a.o, lg, a.lk /\ b.lk)
                                                  ELSE R(Ok(VFalse), lg, a.lk /\ b.lk))
                            ELSE IF b.o.o = "err" THEN (IF a.o.o = "err" THEN R(a.o, lg, a.lk /\ b.lk)
                                                        ELSE R(b.o, lg, a.lk /\ b.lk))
                            ELSE R(AnyOut, lg, FALSE))
                      ELSE \* a is uncertain: b may or may not have been evaluated
                           (IF b.o.o = "ok" /\ Truthy(b.o.v) /\ a.o.o = "opt" THEN R(Ok(VTrue), lg, FALSE) ELSE R(AnyOut, lg, FALSE))
           ELSE IF t.op = "&&" THEN
              LET a == Eval(t.l, env) IN
              IF a.o.o = "err" THEN a
              ELSE IF a.o.o = "ok" /\ ~Truthy(a.o.v) THEN R(Ok(VFalse), a.log, a.lk)
              ELSE IF a.o.o = "ok" THEN
                   LET b == Eval(t.r, env)  lg == a.log \o b.log
                   IN IF b.o.o = "ok" THEN R(Ok(VBool(Truthy(b.o.v))), lg, a.lk /\ b.lk)
                      ELSE IF b.o.o = "err" THEN R(b.o, lg, a.lk /\ b.lk)
                      ELSE R(AnyOut, lg, FALSE)
              ELSE R(AnyOut, a.log, FALSE)
           ELSE LET a == Eval(t.l, env)
                    b == Eval(t.r, env)
                    F(x, y) == CASE t.op \in {"+", "-", "*", "/", "%"} -> Arith(t.op, x, y)
                                 [] t.op = "in" -> In(x, y)
                                 [] OTHER -> RelOp(t.op, x, y)
                IN R(Strict2(F, a.o, b.o), a.log \o b.log, a.lk /\ b.lk /\ (a.log = <<>> \/ b.log = <<>>))
      [] t.k = "tern" ->
           LET c == Eval(t.c, env) IN
           IF c.o.o = "err" THEN c
           ELSE IF c.o.o = "ok"
           THEN LET r == IF Truthy(c.o.v) THEN Eval(t.a, env) ELSE Eval(t.b, env)
                IN R(r.o, c.log \o r.log, c.lk /\ r.lk)
           ELSE R(AnyOut, c.log, FALSE)
      [] t.k = "list" ->
           LET es == EvalElems(t.es, 1, env, [outs |-> <<>>, log |-> <<>>, lk |-> TRUE])
           IN IF AllOk(es.outs) THEN R(Ok(VList(Vals(es.outs))), es.log, es.lk) ELSE R(AnyOut, es.log, es.lk)
      [] t.k = "map" ->
           LET ps == EvalPairs(t.kv, 1, env, [ks |-> <<>>, vs |-> <<>>, log |-> <<>>, lk |-> TRUE])
           IN IF AllOk(ps.ks) /\ AllOk(ps.vs)
              THEN R(MkMap([i \in 1..Len(ps.ks) |-> <<ps.ks[i].v, ps.vs[i].v>>]), ps.log, ps.lk)
              ELSE R(AnyOut, ps.log, ps.lk)
      [] t.k = "sel" ->
           LET a == Eval(t.e, env)
               F(x) == Select(x, t.fc)
           IN R(Strict1(F, a.o), a.log, a.lk)
      [] t.k = "idx" ->
           LET a == Eval(t.e, env)
               b == Eval(t.i, env)
           IN R(Strict2(Index, a.o, b.o), a.log \o b.log, a.lk /\ b.lk /\ (a.log = <<>> \/ b.log = <<>>))
      [] t.k = "fstr" -> Segs(t.segs, 1, env, <<>>, [log |-> <<>>, lk |-> TRUE])
      [] t.k = "match" ->
           LET s == Eval(t.e, env) IN
           IF s.o.o = "ok" THEN Cases(t.cases, 1, s.o.v, env, [log |-> s.log, lk |-> s.lk])
           ELSE R(AnyOut, s.log, FALSE)
      [] t.k = "call" ->
           IF t.f \in DOMAIN env.funcs THEN
              LET as == EvalArgs(t.args, 1, env, NoArgs) IN
              IF as.fail # AnyOut THEN R(as.fail, as.log, as.lk)
              ELSE IF ~AllOk(as.outs) THEN R(AnyOut, as.log, FALSE)
              ELSE LET f == env.funcs[t.f]
                   IN R(IF f.o = "ok" THEN Ok(f.v) ELSE Err(f.c), Append(as.log, t.f), as.lk)
           ELSE IF t.f = "has" THEN
              (IF Len(t.args) # 1 THEN Pure(Err("other"))
               ELSE LET e2 == Deeper(env)
                        r  == AtDepth(e2, Eval(t.args[1], e2))
                    IN R(CASE r.o.o = "ok" -> Ok(VTrue)
                           [] r.o.o = "err" -> (IF r.o.c = "absent" THEN Ok(VFalse)
                                                ELSE IF r.o.c = "other" THEN r.o ELSE Opt(VFalse))
                           [] OTHER -> AnyOut, r.log, r.lk))
           ELSE IF t.f = "coalesce" THEN Coalesce(t.args, 1, env, <<>>, TRUE)
           ELSE IF t.f \in BuiltinNames \/ t.f \in TypeNames THEN
              LET as == EvalArgs(t.args, 1, env, NoArgs) IN
              IF as.fail # AnyOut THEN R(as.fail, as.log, as.lk)
              ELSE IF ~AllOk(as.outs) THEN R(AnyOut, as.log, FALSE)
              ELSE R(CallBuiltin(t.f, FALSE, VNull, Vals(as.outs)), as.log, as.lk)
           ELSE IF t.f \in MacroNames THEN Pure(AnyOut)
           ELSE LET as == EvalArgs(t.args, 1, env, NoArgs) IN R(Err("either"), as.log, FALSE)   \* not callable: a failure (C12); its arguments may or may not run
      [] t.k = "mcall" ->
           LET rc == Eval(t.r, env) IN
           IF rc.o.o = "err" THEN R(rc.o, rc.log, rc.lk)        \* a failed receiver is that failure
           ELSE IF rc.o.o # "ok" THEN R(AnyOut, rc.log, FALSE)
           ELSE LET v == rc.o.v IN
             IF v.t = "map" /\ MapHas(v.kv, t.fc) THEN R(AnyOut, rc.log, FALSE)       \* a field of that name wins; calling it has no meaning
             ELSE IF t.f \in DOMAIN env.funcs THEN
                LET as == EvalArgs(t.args, 1, env, NoArgs) IN
                IF as.fail # AnyOut THEN R(as.fail, rc.log \o as.log, rc.lk /\ as.lk)
                ELSE IF ~AllOk(as.outs) THEN R(AnyOut, rc.log \o as.log, FALSE)
                ELSE LET f == env.funcs[t.f]
                     IN R(IF f.o = "ok" THEN Ok(f.v) ELSE Err(f.c), Append(rc.log \o as.log, t.f), rc.lk /\ as.lk)
             ELSE IF t.f \in BuiltinNames THEN
                LET as == EvalArgs(t.args, 1, env, NoArgs) IN
                IF as.fail # AnyOut THEN R(as.fail, rc.log \o as.log, rc.lk /\ as.lk)
                ELSE IF ~AllOk(as.outs) THEN R(AnyOut, rc.log \o as.log, FALSE)
                ELSE R(CallBuiltin(t.f, TRUE, v, Vals(as.outs)), rc.log \o as.log, rc.lk /\ as.lk)
             ELSE IF t.f \in MacroNames THEN
                LET n    == Len(t.args)
                    isId(a) == a.k = "id"
                    W1(r) == R(r.o, rc.log \o r.log, rc.lk /\ r.lk)
                IN
                IF t.f = "reduce" THEN
                   (IF n # 4 \/ ~isId(t.args[1]) \/ ~isId(t.args[2]) THEN R(Err("other"), rc.log, rc.lk)
                    ELSE LET e2 == Deeper(env)
                             seed == AtDepth(e2, Eval(t.args[4], e2))
                         IN IF seed.o.o = "err" THEN W1(seed)
                            ELSE IF seed.o.o # "ok" THEN R(AnyOut, rc.log \o seed.log, FALSE)
                            ELSE IF v.t # "list" THEN R(Err("other"), rc.log \o seed.log, rc.lk /\ seed.lk)
                            ELSE W1(Reduce(v.s, 1, t.args[1].n, t.args[2].n, t.args[3], env, seed.o.v,
                                           [log |-> seed.log, lk |-> seed.lk])))
                ELSE IF ~((n = 2) \/ (n = 3 /\ t.f = "map")) \/ (n >= 1 /\ ~isId(t.args[1])) THEN R(Err("other"), rc.log, rc.lk)
                ELSE IF v.t = "list"
                     THEN W1(Fold(IF t.f = "map" THEN (IF n = 2 THEN "map2" ELSE "map3") ELSE t.f,
                                  v.s, 1, t.args[1].n, SubSeq(t.args, 2, n), env, Fold0))
                ELSE IF v.t = "map" /\ t.f \in {"map", "filter"}
                     THEN (IF Len(v.kv) <= 1
                           THEN W1(Fold(IF t.f = "map" THEN (IF n = 2 THEN "map2" ELSE "map3") ELSE t.f,
                                        [i \in 1..Len(v.kv) |-> VStr(v.kv[i][1])], 1, t.args[1].n, SubSeq(t.args, 2, n), env, Fold0))
                           ELSE R(AnyOut, rc.log, FALSE))      \* "one fixed order": which one is not stated
                ELSE R(Err("other"), rc.log, rc.lk)
             ELSE IF t.f \in {"has", "coalesce"} THEN R(AnyOut, rc.log, FALSE)   \* method form: no property gives it a meaning
             ELSE R(Err("either"), rc.log, FALSE)              \* no such method: absent attribute or not callable

Env0(vars, progs, funcs) == [vars |-> vars, progs |-> progs, funcs |-> funcs, u |-> 1, h |-> 0, path |-> {}]
=============================================================================
