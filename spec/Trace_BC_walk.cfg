CONSTANT Mode = "walk"
INIT Init
NEXT Next
INVARIANT NoUnderflow
INVARIANT InRange
INVARIANT ForwardOnly
INVARIANT OneValueAtEnd
CHECK_DEADLOCK FALSE
