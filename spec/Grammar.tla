------------------------------ MODULE Grammar ------------------------------
(***************************************************************************)
(* The CEL grammar of rscel as a parser over token sequences (C02, C18):  *)
(* one operator per precedence level,                                      *)
(*   Expr   ::= 'match' Expr '{' cases '}' | Or ('?' Or ':' Expr)?         *)
(*   Or     ::= And ('||' And)*          And ::= Rel ('&&' Rel)*           *)
(*   Rel    ::= Add (relop Add)*         Add ::= Mul (('+'|'-') Mul)*      *)
(*   Mul    ::= Unary (('*'|'/'|'%') Unary)*                               *)
(*   Unary  ::= '!'+ Member | '-'+ Member | Member                         *)
(*   Member ::= Primary ('.' IDENT | '(' args ')' | '[' Expr ']')*         *)
(* binary levels lean left, ?: nests to the right in its else branch.      *)
(* Every node carries the span from the start of its first token to the    *)
(* end of its last token.  Tokens are records [k, v, sp] as the harness    *)
(* records them from the real tokenizer; sp = <<line, col, line, col>>.    *)
(***************************************************************************)
EXTENDS Integers, Sequences

Bad == [bad |-> TRUE]
IsBad(r) == "bad" \in DOMAIN r
Res(n, i) == [n |-> n, i |-> i]

TokK(ts, i) == IF i <= Len(ts) THEN ts[i].k ELSE "eof"
IsP(ts, i, name) == i <= Len(ts) /\ ts[i].k = "p" /\ ts[i].v = name
Sp(a, b) == <<a[1], a[2], b[3], b[4]>>            \* from the start of span a to the end of span b
WithSp(n, s) == [x \in (DOMAIN n) \cup {"sp"} |-> IF x = "sp" THEN s ELSE n[x]]

RelOps == [LessThan |-> "<", LessEqual |-> "<=", EqualEqual |-> "==", NotEqual |-> "!=",
           GreaterEqual |-> ">=", GreaterThan |-> ">", In |-> "in"]
AddOps == [Add |-> "+", Minus |-> "-"]
MulOps == [Multiply |-> "*", Divide |-> "/", Mod |-> "%"]
PatTypes == {"bool", "int", "uint", "float", "double", "string", "bytes", "timestamp", "duration", "null_type"}
PatTypesRejected == {"type", "dyn"}      \* type names that cannot be match patterns

RECURSIVE PExpr(_, _), POr(_, _), POrLoop(_, _, _), PAnd(_, _), PAndLoop(_, _, _), PRel(_, _), PRelLoop(_, _, _),
          PAdd(_, _), PAddLoop(_, _, _), PMul(_, _), PMulLoop(_, _, _), PUnary(_, _), PMember(_, _), PMemberLoop(_, _, _),
          PPrimary(_, _), PList(_, _, _, _), PInits(_, _, _), PCases(_, _, _, _), PRun(_, _, _)

PExpr(ts, i) ==
    IF IsP(ts, i, "Match") THEN
       LET s == PExpr(ts, i + 1) IN
       IF IsBad(s) THEN Bad ELSE IF ~IsP(ts, s.i, "LBrace") THEN Bad
       ELSE LET cs == PCases(ts, s.i + 1, <<>>, TRUE) IN
            IF IsBad(cs) THEN Bad
            ELSE Res([k |-> "match", e |-> s.n, cases |-> cs.n, sp |-> Sp(ts[i].sp, ts[cs.i - 1].sp)], cs.i)
    ELSE LET c == POr(ts, i) IN
         IF IsBad(c) THEN Bad
         ELSE IF IsP(ts, c.i, "Question") THEN
              LET a == POr(ts, c.i + 1) IN
              IF IsBad(a) THEN Bad ELSE IF ~IsP(ts, a.i, "Colon") THEN Bad
              ELSE LET b == PExpr(ts, a.i + 1) IN
                   IF IsBad(b) THEN Bad
                   ELSE Res([k |-> "tern", c |-> c.n, a |-> a.n, b |-> b.n, sp |-> Sp(c.n.sp, b.n.sp)], b.i)
         ELSE c

(* match cases; returns the index after the closing brace *)
PCases(ts, i, acc, commaSeen) ==
    IF IsP(ts, i, "RBrace") THEN Res(acc, i + 1)
    ELSE IF ~commaSeen THEN Bad
    ELSE IF ~IsP(ts, i, "Case") THEN Bad
    ELSE LET j == i + 1
             pat == IF TokK(ts, j) = "ident" /\ ts[j].v = "_" THEN Res([pk |-> "any"], j + 1)
                    ELSE IF TokK(ts, j) = "ident" /\ ts[j].v \in PatTypes THEN Res([pk |-> "type", n |-> ts[j].v], j + 1)
                    ELSE IF TokK(ts, j) = "ident" /\ ts[j].v \in PatTypesRejected THEN Bad
                    ELSE LET hasOp == TokK(ts, j) = "p" /\ ts[j].v \in {"LessThan", "LessEqual", "EqualEqual", "NotEqual", "GreaterEqual", "GreaterThan"}
                             o == POr(ts, IF hasOp THEN j + 1 ELSE j)
                         IN IF IsBad(o) THEN Bad
                            ELSE Res([pk |-> "cmp", op |-> IF hasOp THEN RelOps[ts[j].v] ELSE "==", v |-> o.n], o.i)
         IN IF IsBad(pat) THEN Bad ELSE IF ~IsP(ts, pat.i, "Colon") THEN Bad
            ELSE LET e == PExpr(ts, pat.i + 1) IN
                 IF IsBad(e) THEN Bad
                 ELSE LET comma == IsP(ts, e.i, "Comma")
                      IN PCases(ts, IF comma THEN e.i + 1 ELSE e.i, Append(acc, [p |-> pat.n, e |-> e.n]), comma)

POr(ts, i) == LET l == PAnd(ts, i) IN IF IsBad(l) THEN Bad ELSE POrLoop(ts, l.i, l.n)
POrLoop(ts, i, lhs) ==
    IF IsP(ts, i, "OrOr") THEN
       LET r == PAnd(ts, i + 1) IN
       IF IsBad(r) THEN Bad ELSE POrLoop(ts, r.i, [k |-> "bin", op |-> "||", l |-> lhs, r |-> r.n, sp |-> Sp(lhs.sp, r.n.sp)])
    ELSE Res(lhs, i)
PAnd(ts, i) == LET l == PRel(ts, i) IN IF IsBad(l) THEN Bad ELSE PAndLoop(ts, l.i, l.n)
PAndLoop(ts, i, lhs) ==
    IF IsP(ts, i, "AndAnd") THEN
       LET r == PRel(ts, i + 1) IN
       IF IsBad(r) THEN Bad ELSE PAndLoop(ts, r.i, [k |-> "bin", op |-> "&&", l |-> lhs, r |-> r.n, sp |-> Sp(lhs.sp, r.n.sp)])
    ELSE Res(lhs, i)
PRel(ts, i) == LET l == PAdd(ts, i) IN IF IsBad(l) THEN Bad ELSE PRelLoop(ts, l.i, l.n)
PRelLoop(ts, i, lhs) ==
    IF TokK(ts, i) = "p" /\ ts[i].v \in DOMAIN RelOps THEN
       LET r == PAdd(ts, i + 1) IN
       IF IsBad(r) THEN Bad ELSE PRelLoop(ts, r.i, [k |-> "bin", op |-> RelOps[ts[i].v], l |-> lhs, r |-> r.n, sp |-> Sp(lhs.sp, r.n.sp)])
    ELSE Res(lhs, i)
PAdd(ts, i) == LET l == PMul(ts, i) IN IF IsBad(l) THEN Bad ELSE PAddLoop(ts, l.i, l.n)
PAddLoop(ts, i, lhs) ==
    IF TokK(ts, i) = "p" /\ ts[i].v \in DOMAIN AddOps THEN
       LET r == PMul(ts, i + 1) IN
       IF IsBad(r) THEN Bad ELSE PAddLoop(ts, r.i, [k |-> "bin", op |-> AddOps[ts[i].v], l |-> lhs, r |-> r.n, sp |-> Sp(lhs.sp, r.n.sp)])
    ELSE Res(lhs, i)
PMul(ts, i) == LET l == PUnary(ts, i) IN IF IsBad(l) THEN Bad ELSE PMulLoop(ts, l.i, l.n)
PMulLoop(ts, i, lhs) ==
    IF TokK(ts, i) = "p" /\ ts[i].v \in DOMAIN MulOps THEN
       LET r == PUnary(ts, i + 1) IN
       IF IsBad(r) THEN Bad ELSE PMulLoop(ts, r.i, [k |-> "bin", op |-> MulOps[ts[i].v], l |-> lhs, r |-> r.n, sp |-> Sp(lhs.sp, r.n.sp)])
    ELSE Res(lhs, i)

(* end of a run of the same prefix operator *)
PRun(ts, i, name) == IF IsP(ts, i, name) THEN PRun(ts, i + 1, name) ELSE i
PUnary(ts, i) ==
    IF IsP(ts, i, "Not") \/ IsP(ts, i, "Minus") THEN
       LET name == ts[i].v
           j == PRun(ts, i, name)
           m == PMember(ts, j)
       IN IF IsBad(m) THEN Bad
          ELSE Res([k |-> "un", op |-> IF name = "Not" THEN "!" ELSE "-", n |-> j - i, e |-> m.n, sp |-> Sp(ts[i].sp, m.n.sp)], m.i)
    ELSE PMember(ts, i)

PMember(ts, i) == LET p == PPrimary(ts, i) IN IF IsBad(p) THEN Bad ELSE PMemberLoop(ts, p.i, p.n)
PMemberLoop(ts, i, cur) ==
    IF IsP(ts, i, "Dot") THEN
       (IF TokK(ts, i + 1) = "ident"
        THEN PMemberLoop(ts, i + 2, [k |-> "sel", e |-> cur, f |-> ts[i + 1].v, sp |-> Sp(cur.sp, ts[i + 1].sp)])
        ELSE Bad)
    ELSE IF IsP(ts, i, "LParen") THEN
       LET as == PList(ts, i + 1, "RParen", <<>>) IN
       IF IsBad(as) THEN Bad
       ELSE LET s == Sp(cur.sp, ts[as.i - 1].sp)
                node == IF cur.k = "id" THEN [k |-> "call", f |-> cur.n, args |-> as.n, sp |-> s]
                        ELSE IF cur.k = "sel" THEN [k |-> "mcall", r |-> cur.e, f |-> cur.f, args |-> as.n, sp |-> s]
                        ELSE [k |-> "callx", e |-> cur, args |-> as.n, sp |-> s]
            IN PMemberLoop(ts, as.i, node)
    ELSE IF IsP(ts, i, "LBracket") THEN
       LET e == PExpr(ts, i + 1) IN
       IF IsBad(e) THEN Bad ELSE IF ~IsP(ts, e.i, "RBracket") THEN Bad
       ELSE PMemberLoop(ts, e.i + 1, [k |-> "idx", e |-> cur, i |-> e.n, sp |-> Sp(cur.sp, ts[e.i].sp)])
    ELSE Res(cur, i)

(* comma separated expressions up to the closing token (a trailing comma is allowed); index after the closer *)
PList(ts, i, closer, acc) ==
    IF IsP(ts, i, closer) THEN Res(acc, i + 1)
    ELSE LET e == PExpr(ts, i) IN
         IF IsBad(e) THEN Bad
         ELSE IF IsP(ts, e.i, "Comma") THEN PList(ts, e.i + 1, closer, Append(acc, e.n))
         ELSE IF IsP(ts, e.i, closer) THEN Res(Append(acc, e.n), e.i + 1)
         ELSE Bad
PInits(ts, i, acc) ==
    IF IsP(ts, i, "RBrace") THEN Res(acc, i + 1)
    ELSE LET k == PExpr(ts, i) IN
         IF IsBad(k) THEN Bad ELSE IF ~IsP(ts, k.i, "Colon") THEN Bad
         ELSE LET v == PExpr(ts, k.i + 1) IN
              IF IsBad(v) THEN Bad
              ELSE IF IsP(ts, v.i, "Comma") THEN PInits(ts, v.i + 1, Append(acc, <<k.n, v.n>>))
              ELSE IF IsP(ts, v.i, "RBrace") THEN Res(Append(acc, <<k.n, v.n>>), v.i + 1)
              ELSE Bad

PPrimary(ts, i) ==
    LET k == TokK(ts, i) IN
    IF k = "ident" THEN Res([k |-> "id", n |-> ts[i].v, sp |-> ts[i].sp], i + 1)
    ELSE IF k = "fstr" THEN
       \* every embedded text is exactly one expression (its own tokens are recorded with the segment)
       (IF \A j \in 1..Len(ts[i].v) : "x" \in DOMAIN ts[i].v[j] =>
               /\ "xt" \in DOMAIN ts[i].v[j]
               /\ LET r == PExpr(ts[i].v[j].xt, 1) IN ~IsBad(r) /\ r.i = Len(ts[i].v[j].xt) + 1
        THEN Res([k |-> "fstr", segs |-> ts[i].v, sp |-> ts[i].sp], i + 1)
        ELSE Bad)
    ELSE IF k \in {"int", "uint", "float", "str", "bytes", "bool"} THEN Res([k |-> "lit", tk |-> k, v |-> ts[i].v, sp |-> ts[i].sp], i + 1)
    ELSE IF IsP(ts, i, "Null") THEN Res([k |-> "lit", tk |-> "null", v |-> "null", sp |-> ts[i].sp], i + 1)
    ELSE IF IsP(ts, i, "LParen") THEN
       LET e == PExpr(ts, i + 1) IN
       IF IsBad(e) THEN Bad ELSE IF ~IsP(ts, e.i, "RParen") THEN Bad
       ELSE Res([k |-> "paren", e |-> e.n, sp |-> Sp(ts[i].sp, ts[e.i].sp)], e.i + 1)
    ELSE IF IsP(ts, i, "LBracket") THEN
       LET es == PList(ts, i + 1, "RBracket", <<>>) IN
       IF IsBad(es) THEN Bad ELSE Res([k |-> "list", es |-> es.n, sp |-> Sp(ts[i].sp, ts[es.i - 1].sp)], es.i)
    ELSE IF IsP(ts, i, "LBrace") THEN
       LET kv == PInits(ts, i + 1, <<>>) IN
       IF IsBad(kv) THEN Bad ELSE Res([k |-> "map", kv |-> kv.n, sp |-> Sp(ts[i].sp, ts[kv.i - 1].sp)], kv.i)
    ELSE Bad

(* whole input: a tree, or the node SyntaxErr *)
SyntaxErr == [k |-> "SYNTAX"]
Parse(ts) == LET r == PExpr(ts, 1) IN IF IsBad(r) THEN SyntaxErr ELSE IF r.i # Len(ts) + 1 THEN SyntaxErr ELSE r.n

----------------------------------------------------------------------------
(* comparing a parsed tree with the tree the implementation exposes (harness projection):  *)
(* same shape, same operators, same names, same literal tokens, same spans                  *)
RECURSIVE SameTree(_, _, _), SameSeq(_, _, _, _)
SameSeq(xs, ys, i, spans) == IF Len(xs) # Len(ys) THEN FALSE
                             ELSE IF i > Len(xs) THEN TRUE
                             ELSE SameTree(xs[i], ys[i], spans) /\ SameSeq(xs, ys, i + 1, spans)
SameLit(a, b) == \* a: parsed [tk, v] token value (or a projected literal); b: projected [v |-> value record]
    IF ~("tk" \in DOMAIN a) THEN a.v = b.v ELSE
    CASE a.tk = "int"   -> b.v.t = "int" /\ b.v.n = a.v
      [] a.tk = "uint"  -> b.v.t = "uint" /\ b.v.n = a.v
      [] a.tk = "float" -> b.v.t = "dbl" /\ [neg |-> b.v.neg, e |-> b.v.e, m |-> b.v.m] = [neg |-> a.v.neg, e |-> a.v.e, m |-> a.v.m]
      [] a.tk = "str"   -> b.v.t = "str" /\ b.v.s = a.v
      [] a.tk = "bytes" -> b.v.t = "bytes" /\ b.v.s = a.v
      [] a.tk = "bool"  -> b.v.t = "bool" /\ b.v.b = a.v
      [] a.tk = "null"  -> b.v.t = "null"
      [] OTHER -> FALSE
SameTree(a, b, spans) ==
    /\ a.k = b.k
    /\ (spans => ("sp" \in DOMAIN b /\ a.sp = b.sp))
    /\ CASE a.k = "id"   -> a.n = b.n
         [] a.k = "lit"  -> SameLit(a, b)
         [] a.k = "fstr" -> /\ Len(a.segs) = Len(b.segs)
                            /\ \A j \in 1..Len(a.segs) : IF "s" \in DOMAIN a.segs[j] THEN "s" \in DOMAIN b.segs[j] /\ a.segs[j].s = b.segs[j].s
                                                          ELSE "x" \in DOMAIN b.segs[j] /\ a.segs[j].x = b.segs[j].x
         [] a.k = "un"   -> a.op = b.op /\ a.n = b.n /\ SameTree(a.e, b.e, spans)
         [] a.k = "bin"  -> a.op = b.op /\ SameTree(a.l, b.l, spans) /\ SameTree(a.r, b.r, spans)
         [] a.k = "tern" -> SameTree(a.c, b.c, spans) /\ SameTree(a.a, b.a, spans) /\ SameTree(a.b, b.b, spans)
         [] a.k = "paren" -> SameTree(a.e, b.e, spans)
         [] a.k = "list" -> SameSeq(a.es, b.es, 1, spans)
         [] a.k = "map"  -> Len(a.kv) = Len(b.kv) /\ \A i \in 1..Len(a.kv) : SameTree(a.kv[i][1], b.kv[i][1], spans) /\ SameTree(a.kv[i][2], b.kv[i][2], spans)
         [] a.k = "sel"  -> a.f = b.f /\ SameTree(a.e, b.e, spans)
         [] a.k = "idx"  -> SameTree(a.e, b.e, spans) /\ SameTree(a.i, b.i, spans)
         [] a.k = "call" -> a.f = b.f /\ SameSeq(a.args, b.args, 1, spans)
         [] a.k = "mcall" -> a.f = b.f /\ SameTree(a.r, b.r, spans) /\ SameSeq(a.args, b.args, 1, spans)
         [] a.k = "callx" -> SameTree(a.e, b.e, spans) /\ SameSeq(a.args, b.args, 1, spans)
         [] a.k = "match" -> /\ SameTree(a.e, b.e, spans) /\ Len(a.cases) = Len(b.cases)
                             /\ \A i \in 1..Len(a.cases) :
                                  /\ a.cases[i].p.pk = b.cases[i].p.pk
                                  /\ (a.cases[i].p.pk = "cmp" => a.cases[i].p.op = b.cases[i].p.op /\ SameTree(a.cases[i].p.v, b.cases[i].p.v, spans))
                                  /\ SameTree(a.cases[i].e, b.cases[i].e, spans)
         [] OTHER -> FALSE
=============================================================================
