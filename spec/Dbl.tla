------------------------------- MODULE Dbl -------------------------------
(***************************************************************************)
(* IEEE-754 binary64, exactly.  A double is [neg, e, m]: sign, the 11-bit *)
(* biased exponent field and the 52-bit fraction field (as a magnitude,   *)
(* see Big).  Its value is  (-1)^neg * Sig * 2^Ex.  All operations round  *)
(* the exact rational result to nearest-even, so + - * / and the          *)
(* int -> double widening of the reference semantics are decided to the   *)
(* last bit, not approximated.                                             *)
(***************************************************************************)
EXTENDS Big

P52 == MPow2(52)
DNaN == [neg |-> FALSE, e |-> 2047, m |-> <<1>>]
DInf(neg) == [neg |-> neg, e |-> 2047, m |-> <<>>]
DZero(neg) == [neg |-> neg, e |-> 0, m |-> <<>>]
DOne == [neg |-> FALSE, e |-> 1023, m |-> <<>>]

DIsNaN(d) == d.e = 2047 /\ d.m # <<>>
DIsInf(d) == d.e = 2047 /\ d.m = <<>>
DIsZero(d) == d.e = 0 /\ d.m = <<>>
DIsFinite(d) == d.e < 2047
DSig(d) == IF d.e = 0 THEN d.m ELSE MAdd(P52, d.m)
DEx(d)  == IF d.e = 0 THEN -1074 ELSE d.e - 1075
DNeg(d) == IF DIsNaN(d) THEN d ELSE [d EXCEPT !.neg = ~d.neg]
DAbs(d) == [d EXCEPT !.neg = FALSE]

(* q * 2^qex where q < 2^52 and qex = -1074 (subnormal), or 2^52 <= q <= 2^53 *)
DPack(neg, q, qex) ==
    IF q = <<>> THEN DZero(neg)
    ELSE LET L == MBitLen(q)
         IN IF L <= 52 THEN [neg |-> neg, e |-> 0, m |-> q]
            ELSE IF L = 53
                 THEN LET e == qex + 1075 IN IF e >= 2047 THEN DInf(neg) ELSE [neg |-> neg, e |-> e, m |-> MSub(q, P52)]
                 ELSE LET e == qex + 1076 IN IF e >= 2047 THEN DInf(neg) ELSE [neg |-> neg, e |-> e, m |-> <<>>]

(* nearest double to mag * 2^ex (plus something in (0, 2^ex) if sticky), ties to even *)
DRound(neg, mag, ex, sticky) ==
    IF mag = <<>> THEN DZero(neg)
    ELSE LET L     == MBitLen(mag)
             E     == L - 1 + ex
             shift == IF E < -1022 THEN -1074 - ex ELSE L - 53
         IN IF shift <= 0 THEN DPack(neg, MShl(mag, -shift), ex + shift)
            ELSE IF shift > L + 1 THEN DZero(neg)          \* far below half of the smallest subnormal
            ELSE LET q    == MShr(mag, shift)
                     rem  == MLowBits(mag, shift)
                     c    == MCmp(rem, MPow2(shift - 1))
                     up   == c > 0 \/ (c = 0 /\ (sticky \/ ~MIsEven(q)))
                 IN DPack(neg, IF up THEN MAdd(q, <<1>>) ELSE q, ex + shift)

DFromBig(b) == DRound(b.s < 0, b.m, 0, FALSE)

(* exact signed significand at a common exponent *)
DAdd(a, b) ==
    IF DIsNaN(a) \/ DIsNaN(b) THEN DNaN
    ELSE IF DIsInf(a) THEN (IF DIsInf(b) /\ a.neg # b.neg THEN DNaN ELSE a)
    ELSE IF DIsInf(b) THEN b
    ELSE IF DIsZero(a) /\ DIsZero(b) THEN DZero(a.neg /\ b.neg)
    ELSE IF DIsZero(a) THEN b
    ELSE IF DIsZero(b) THEN a
    ELSE LET ea == DEx(a)  eb == DEx(b)
         IN IF ea - eb > 120 THEN   \* b is far below a's last bit: a, nudged towards b
                 LET s == IF a.neg = b.neg THEN MShl(DSig(a), 3) ELSE MSub(MShl(DSig(a), 3), <<1>>)
                 IN DRound(a.neg, s, ea - 3, TRUE)
            ELSE IF eb - ea > 120 THEN
                 LET s == IF a.neg = b.neg THEN MShl(DSig(b), 3) ELSE MSub(MShl(DSig(b), 3), <<1>>)
                 IN DRound(b.neg, s, eb - 3, TRUE)
            ELSE LET mn == IMin(ea, eb)
                     A  == [s |-> IF a.neg THEN -1 ELSE 1, m |-> MShl(DSig(a), ea - mn)]
                     B  == [s |-> IF b.neg THEN -1 ELSE 1, m |-> MShl(DSig(b), eb - mn)]
                     S  == BAdd(A, B)
                 IN IF S.s = 0 THEN DZero(FALSE) ELSE DRound(S.s < 0, S.m, mn, FALSE)
DSub(a, b) == DAdd(a, DNeg(b))

DMul(a, b) ==
    IF DIsNaN(a) \/ DIsNaN(b) THEN DNaN
    ELSE LET neg == a.neg # b.neg
         IN IF DIsInf(a) \/ DIsInf(b)
            THEN (IF DIsZero(a) \/ DIsZero(b) THEN DNaN ELSE DInf(neg))
            ELSE IF DIsZero(a) \/ DIsZero(b) THEN DZero(neg)
            ELSE DRound(neg, MMul(DSig(a), DSig(b)), DEx(a) + DEx(b), FALSE)

DDiv(a, b) ==
    IF DIsNaN(a) \/ DIsNaN(b) THEN DNaN
    ELSE LET neg == a.neg # b.neg
         IN IF DIsInf(a) THEN (IF DIsInf(b) THEN DNaN ELSE DInf(neg))
            ELSE IF DIsInf(b) THEN DZero(neg)
            ELSE IF DIsZero(b) THEN (IF DIsZero(a) THEN DNaN ELSE DInf(neg))
            ELSE IF DIsZero(a) THEN DZero(neg)
            ELSE LET d == MDivMod(MShl(DSig(a), 120), DSig(b))
                 IN DRound(neg, d.q, DEx(a) - DEx(b) - 120, d.r # <<>>)

(* "lt" "eq" "gt" "un" *)
DCmp(a, b) ==
    IF DIsNaN(a) \/ DIsNaN(b) THEN "un"
    ELSE IF DIsZero(a) /\ DIsZero(b) THEN "eq"
    ELSE IF a.neg # b.neg THEN (IF a.neg THEN "lt" ELSE "gt")
    ELSE LET c == IF a.e # b.e THEN (IF a.e < b.e THEN -1 ELSE 1) ELSE MCmp(a.m, b.m)
             s == IF a.neg THEN -c ELSE c
         IN IF s < 0 THEN "lt" ELSE IF s > 0 THEN "gt" ELSE "eq"

(* finite double -> integer part, truncated toward zero *)
DTrunc(d) == LET ex == DEx(d)
                 mg == IF ex >= 0 THEN MShl(DSig(d), ex) ELSE MShr(DSig(d), -ex)
             IN BMk(IF d.neg THEN -1 ELSE 1, mg)
DIsIntegral(d) == DIsFinite(d) /\ (DIsZero(d) \/ DEx(d) >= 0 \/ MLowBits(DSig(d), -DEx(d)) = <<>>)
(* floor / ceil of a finite double as Big *)
DFloor(d) == LET t == DTrunc(d) IN IF d.neg /\ ~DIsIntegral(d) THEN BSub(t, BOne) ELSE t
DCeil(d)  == LET t == DTrunc(d) IN IF ~d.neg /\ ~DIsIntegral(d) THEN BAdd(t, BOne) ELSE t
(* twice the fractional distance compared with one: is |frac| >= 1/2 ? *)
DFracGeHalf(d) == LET ex == DEx(d)
                  IN ex < 0 /\ (IF -ex > MBitLen(DSig(d)) + 1 THEN FALSE
                                ELSE MCmp(MLowBits(DSig(d), -ex), MPow2(-ex - 1)) >= 0)
(* round half away from zero *)
DRoundHalfAway(d) == LET t == DTrunc(d)
                     IN IF DFracGeHalf(d) THEN (IF d.neg THEN BSub(t, BOne) ELSE BAdd(t, BOne)) ELSE t

(* nearest double to the decimal D * 10^E10 (D a magnitude) *)
DFromDecimal(neg, D, E10) ==
    IF D = <<>> THEN DZero(neg)
    ELSE IF E10 >= 0 THEN DRound(neg, MMul(D, MPow(<<10>>, E10)), 0, FALSE)
    ELSE LET den == MPow(<<10>>, -E10)
             k   == IMax(0, MBitLen(den) - MBitLen(D)) + 70
             d   == MDivMod(MShl(D, k), den)
         IN DRound(neg, d.q, -k, d.r # <<>>)

(* is d the correctly rounded value of D * 10^E10 ?  Decided without division:            *)
(* |D*10^E10 - v| <= half an ulp (ties only when the significand is even), both sides      *)
(* scaled to integers.                                                                      *)
DIsNearestDecimal(d, D, E10) ==
    IF ~DIsFinite(d) THEN DIsInf(d) /\ DFromDecimal(d.neg, D, E10) = d
    ELSE LET sig == DSig(d)   ex == DEx(d)
             p2  == IMax(ex, 0)     n2  == IMax(-ex, 0)
             p10 == IMax(E10, 0)    n10 == IMax(-E10, 0)
             \* multiply everything by 2^(n2+2) * 10^n10
             Vv  == MMul(MMul(D, MPow(<<10>>, p10)), MPow2(n2 + 2))
             Ww  == MMul(MMul(sig, MPow2(p2 + 2)), MPow(<<10>>, n10))
             half == MMul(MPow2(p2 + 1), MPow(<<10>>, n10))
             quarter == MMul(MPow2(p2), MPow(<<10>>, n10))
             c    == MCmp(Vv, Ww)
             diff == IF c >= 0 THEN MSub(Vv, Ww) ELSE MSub(Ww, Vv)
             \* below a power of two the spacing halves (not for the smallest normal / subnormals)
             lowB == c < 0 /\ d.m = <<>> /\ d.e > 1
             lim  == IF lowB THEN quarter ELSE half
             dc   == MCmp(diff, lim)
         IN IF DIsZero(d) THEN D = <<>> \/ DFromDecimal(d.neg, D, E10) = d
            ELSE dc < 0 \/ (dc = 0 /\ MIsEven(sig))

IsDbl(d) == /\ DOMAIN d = {"neg", "e", "m"} \/ {"neg", "e", "m"} \subseteq DOMAIN d
            /\ d.neg \in BOOLEAN
            /\ d.e \in 0..2047
            /\ MBitLen(d.m) <= 52
=============================================================================
