CONSTANT Mode = "verdicts"
INIT Init
NEXT Next
CHECK_DEADLOCK FALSE
