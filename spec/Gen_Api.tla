------------------------------ MODULE Gen_Api ------------------------------
(***************************************************************************)
(* The Api history machine as a TLC state graph (C11): every history of   *)
(* length L over a small alphabet is a behaviour; each is printed as a    *)
(* case and replayed through the real API (spec -> implementation), and   *)
(* in every state the model-level properties hold:                         *)
(*   ExecFunctional  the outcome of an exec is the outcome in a fresh      *)
(*                   world holding only that context and those bindings;   *)
(*   ClonesEqualAtBirth / independence are action properties of Next.      *)
(***************************************************************************)
EXTENDS Api, TLC, Json

CONSTANTS L, EXT      \* EXT = 1 adds user functions and serialization round trips to the alphabet

I(n) == [k |-> "lit", v |-> VInt(BFromInt(n))]
Id(n) == [k |-> "id", n |-> n]
Bin(op, l, r) == [k |-> "bin", op |-> op, l |-> l, r |-> r]
Src == [S1 |-> Bin("+", Id("x"), I(1)),
        S2 |-> Bin("+", Id("q"), I(1)),
        S4 |-> Bin("+", [k |-> "call", f |-> "f", args |-> <<Id("x")>>], I(1)),
        S3 |-> [k |-> "mcall", r |-> [k |-> "list", es |-> <<I(1), I(2)>>], f |-> "map", fc |-> <<109, 97, 112>>,
                args |-> <<Id("e"), Bin("+", Id("e"), Id("x"))>>]]
Names == {"p", "q"}
GVals == {VInt(BFromInt(1)), VInt(BFromInt(2))}

VARIABLES st, hist
vars == <<st, hist>>

Init == st = St0 /\ hist = <<>>

Ctxs == DOMAIN st.ctxs
Binds == DOMAIN st.binds
Events ==
    (IF Cardinality(Ctxs) < 2 THEN {[a |-> "NewCtx", c |-> Cardinality(Ctxs) + 1]} ELSE {})
    \cup (IF Cardinality(Ctxs) = 1 THEN {[a |-> "CloneCtx", c |-> 1, as |-> 2]} ELSE {})
    \cup (IF Cardinality(Binds) < 2 THEN {[a |-> "NewBind", b |-> Cardinality(Binds) + 1]} ELSE {})
    \cup (IF Cardinality(Binds) = 1 THEN {[a |-> "CloneBind", b |-> 1, as |-> 2]} ELSE {})
    \cup {[a |-> "AddProgram", c |-> c, n |-> n, tree |-> Src[s], src |-> s, ok |-> TRUE] : c \in Ctxs, n \in Names,
              s \in (IF EXT = 0 THEN DOMAIN Src \ {"S4"} ELSE {"S2", "S4"})}
    \cup {[a |-> "BindParam", b |-> b, n |-> "x", v |-> v] : b \in Binds, v \in GVals}
    \cup (IF EXT = 0 THEN {} ELSE {[a |-> "BindFunc", b |-> b, n |-> "f", f |-> f] : b \in Binds, f \in {"k7", "kerr"}})
    \cup (IF EXT = 0 THEN {} ELSE
          UNION {{[a |-> "SerRound", c |-> c, n |-> n, fmt |-> fmt, to |-> to, as |-> "q", ok |-> TRUE] :
                    n \in Names \cap DOMAIN st.ctxs[c], fmt \in {"json", "bincode"}, to \in Ctxs} : c \in Ctxs})
    \cup {[a |-> "Exec", c |-> c, b |-> b, n |-> n] : c \in Ctxs, b \in Binds, n \in Names}

Extend == /\ Len(hist) < L
          /\ \E ev \in Events : hist' = Append(hist, ev) /\ st' = Apply(st, ev)
Emit == /\ Len(hist) = L
        /\ hist[L].a = "Exec"            \* only histories that end by observing something
        /\ PrintT("CASE " \o ToJson([steps |-> hist]))
        /\ UNCHANGED vars
Next == Extend \/ Emit

Fresh(c, b) == [ctxs |-> [x \in {c} |-> st.ctxs[c]], binds |-> [x \in {b} |-> st.binds[b]], funcs |-> [x \in {b} |-> st.funcs[b]]]
ExecFunctional == \A c \in Ctxs, b \in Binds, n \in Names :
    LET ev == [a |-> "Exec", c |-> c, b |-> b, n |-> n] IN ExecOutcome(st, ev) = ExecOutcome(Fresh(c, b), ev)
(* a clone starts equal and an exec or details call never changes any object *)
PureStep == [][(hist' # hist /\ hist'[Len(hist')].a = "Exec") => st' = st]_vars
CloneStep == [][(hist' # hist /\ hist'[Len(hist')].a = "CloneCtx") =>
                  (st'.ctxs[2] = st.ctxs[1] /\ st'.ctxs[1] = st.ctxs[1] /\ st'.binds = st.binds /\ st'.funcs = st.funcs)]_vars
(* a program taken through serialization is the program: the copy and the original are indistinguishable to Exec *)
SerStep == [][(hist' # hist /\ hist'[Len(hist')].a = "SerRound") =>
                LET ev == hist'[Len(hist')] IN st'.ctxs[ev.to][ev.as] = st.ctxs[ev.c][ev.n] /\ st'.binds = st.binds /\ st'.funcs = st.funcs]_vars
=============================================================================
