----------------------------- MODULE Trace_Api -----------------------------
(***************************************************************************)
(* Validation of recorded API histories (C11).  One history per line:     *)
(* steps = sequence of events, each with what the implementation returned *)
(* and the full projected state after the call.  The specification        *)
(* replays the history with Api!Apply; after every step the recorded      *)
(* state must be the specification's (so Exec changed nothing, clones are *)
(* independent, add/bind replaced) and every Exec outcome must be one     *)
(* Eval allows for the *current* programs and bindings - whatever was     *)
(* executed, added or cloned before, and on whichever thread.             *)
(***************************************************************************)
EXTENDS Api, TLC, Json, IOUtils

P == INSTANCE Params
Rec == ndJsonDeserialize(IOEnv.TRACE)
VARIABLES l
Init == l = 1

(* JSON objects keyed by object id arrive as records with string fields "1", "2", ... *)
IdKey(i) == ToString(i)
ProjMatches(st, rec) ==
    LET p == Projection(st) IN
    /\ DOMAIN rec.ctxs = {IdKey(c) : c \in DOMAIN p.ctxs}
    /\ DOMAIN rec.binds = {IdKey(b) : b \in DOMAIN p.binds}
    /\ \A c \in DOMAIN p.ctxs : DOMAIN rec.ctxs[IdKey(c)] = DOMAIN p.ctxs[c] /\ \A n \in DOMAIN p.ctxs[c] : rec.ctxs[IdKey(c)][n] = p.ctxs[c][n]
    /\ \A b \in DOMAIN p.binds : DOMAIN rec.binds[IdKey(b)] = DOMAIN p.binds[b] /\ \A n \in DOMAIN p.binds[b] : rec.binds[IdKey(b)][n] = p.binds[b][n]
    /\ ("funcs" \in DOMAIN rec => \A b \in DOMAIN p.funcs : DOMAIN rec.funcs[IdKey(b)] = DOMAIN p.funcs[b] /\ \A n \in DOMAIN p.funcs[b] : rec.funcs[IdKey(b)][n] = p.funcs[b][n])

(* the parameters reported for a stored program - however it got there: compiled in place, added precompiled, cloned  *)
(* with its context or taken through serialization - name every variable its tree may read (C17, C19)                 *)
ParamsMissing(st, ev) == (P!FreeVars(st.ctxs[ev.c][ev.n].tree, {}) \ TypeNames) \ {ev.params[i] : i \in 1..Len(ev.params)}

(* evaluation is a function of the programs and the bindings (C11): two executions of the same program name under    *)
(* equal recorded programs and equal recorded bindings - whichever objects hold them, whatever happened in between -  *)
(* returned the same outcome                                                                                          *)
SameInputs(a, b) == /\ a.a = "Exec" /\ b.a = "Exec" /\ a.n = b.n /\ "state" \in DOMAIN a /\ "state" \in DOMAIN b
                    /\ a.state.ctxs[IdKey(a.c)] = b.state.ctxs[IdKey(b.c)]
                    /\ a.state.binds[IdKey(a.b)] = b.state.binds[IdKey(b.b)]
                    /\ ("funcs" \in DOMAIN a.state) = ("funcs" \in DOMAIN b.state)
                    /\ ("funcs" \in DOMAIN a.state => a.state.funcs[IdKey(a.b)] = b.state.funcs[IdKey(b.b)])
NotAFunction(steps, i) == \E j \in 1..(i - 1) : SameInputs(steps[j], steps[i]) /\ steps[j].out # steps[i].out

RECURSIVE Replay(_, _, _)
Replay(steps, i, st) ==
    IF i > Len(steps) THEN "ok"
    ELSE LET ev == steps[i]
             st2 == Apply(st, ev)
         IN IF ev.a = "Exec" /\ ev.out.o = "crash" THEN "crash@" \o ToString(i)
            ELSE IF ev.a = "Exec" /\ ~Matches(ev.out, ExecOutcome(st, ev).o) THEN "exec-outcome@" \o ToString(i) \o ":" \o ev.n
            ELSE IF ev.a = "Exec" /\ NotAFunction(steps, i) THEN "exec-not-a-function@" \o ToString(i) \o ":" \o ev.n
            ELSE IF ev.a = "Details" /\ (ev.n \in DOMAIN st.ctxs[ev.c]) /\ ev.src # st.ctxs[ev.c][ev.n].src THEN "details-source@" \o ToString(i)
            ELSE IF ev.a = "Details" /\ ~(ev.n \in DOMAIN st.ctxs[ev.c]) /\ ev.found THEN "details-of-missing-program@" \o ToString(i)
            ELSE IF ev.a = "Details" /\ (ev.n \in DOMAIN st.ctxs[ev.c]) /\ ~ev.found THEN "details-lost-program@" \o ToString(i)
            ELSE IF ev.a = "Details" /\ (ev.n \in DOMAIN st.ctxs[ev.c]) /\ "params" \in DOMAIN ev /\ ParamsMissing(st, ev) # {} THEN "details-params@" \o ToString(i) \o ":" \o ToString(ParamsMissing(st, ev))
            ELSE IF ev.a = "SerRound" /\ (ev.n \in DOMAIN st.ctxs[ev.c]) /\ ~ev.ok THEN "ser-round-failed@" \o ToString(i) \o ":" \o ev.fmt
            ELSE IF "state" \in DOMAIN ev /\ ~ProjMatches(st2, ev.state) THEN "state-after-" \o ev.a \o "@" \o ToString(i)
            ELSE Replay(steps, i + 1, st2)

Step == /\ l <= Len(Rec)
        /\ LET v == Replay(Rec[l].steps, 1, St0) IN IF v = "ok" THEN TRUE ELSE PrintT(<<"VERDICT", Rec[l].id, v>>)
        /\ l' = l + 1
Done == /\ l = Len(Rec) + 1
        /\ PrintT(<<"SUMMARY", Len(Rec), 0, Len(Rec), 0>>)
        /\ l' = l + 1
Next == Step \/ Done
=============================================================================
