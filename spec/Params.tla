------------------------------- MODULE Params -------------------------------
(***************************************************************************)
(* Free identifiers of an expression tree (C17): every identifier that    *)
(* may be read as a variable, wherever it occurs - operands, call         *)
(* arguments and receivers, macro ranges and bodies, f-string segments,   *)
(* index expressions, map keys and values, match scrutinees, patterns and *)
(* arms, untaken branches.  A macro's loop variable is bound inside the   *)
(* macro's body (not in its range, nor in the seed of reduce).             *)
(***************************************************************************)
EXTENDS Integers, Sequences, FiniteSets

LoopMacros == {"all", "exists", "exists_one", "filter", "map"}

RECURSIVE FreeVars(_, _), FreeSeq(_, _, _)
FreeSeq(ts, i, bound) == IF i > Len(ts) THEN {} ELSE FreeVars(ts[i], bound) \cup FreeSeq(ts, i + 1, bound)
FreeVars(t, bound) ==
    CASE t.k = "lit" -> {}
      [] t.k = "id"  -> IF t.n \in bound THEN {} ELSE {t.n}
      [] t.k \in {"un", "paren", "sel"} -> FreeVars(t.e, bound)
      [] t.k = "bin" -> FreeVars(t.l, bound) \cup FreeVars(t.r, bound)
      [] t.k = "tern" -> FreeVars(t.c, bound) \cup FreeVars(t.a, bound) \cup FreeVars(t.b, bound)
      [] t.k = "list" -> FreeSeq(t.es, 1, bound)
      [] t.k = "map" -> UNION {FreeVars(t.kv[i][1], bound) \cup FreeVars(t.kv[i][2], bound) : i \in 1..Len(t.kv)}
      [] t.k = "idx" -> FreeVars(t.e, bound) \cup FreeVars(t.i, bound)
      [] t.k = "call" -> FreeSeq(t.args, 1, bound)
      [] t.k = "mcall" ->
           LET n == Len(t.args) IN
           FreeVars(t.r, bound) \cup
           (IF t.f \in LoopMacros /\ n >= 2 /\ t.args[1].k = "id"
            THEN FreeSeq(SubSeq(t.args, 2, n), 1, bound \cup {t.args[1].n})
            ELSE IF t.f = "reduce" /\ n = 4 /\ t.args[1].k = "id" /\ t.args[2].k = "id"
            THEN FreeVars(t.args[3], bound \cup {t.args[1].n, t.args[2].n}) \cup FreeVars(t.args[4], bound)
            ELSE FreeSeq(t.args, 1, bound))
      [] t.k = "fstr" -> UNION {IF "e" \in DOMAIN t.segs[i] THEN FreeVars(t.segs[i].e, bound) ELSE {} : i \in 1..Len(t.segs)}
      [] t.k = "match" -> FreeVars(t.e, bound) \cup
                          UNION {(IF t.cases[i].p.pk = "cmp" THEN FreeVars(t.cases[i].p.v, bound) ELSE {}) \cup FreeVars(t.cases[i].e, bound) : i \in 1..Len(t.cases)}
      [] OTHER -> {}
=============================================================================
