CONSTANT W = 64
CONSTANT EXT = 0
CONSTANT L = 6
INIT Init
NEXT Next
INVARIANT ExecFunctional
PROPERTY PureStep
PROPERTY CloneStep
PROPERTY SerStep
CHECK_DEADLOCK FALSE
