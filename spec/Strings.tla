------------------------------ MODULE Strings ------------------------------
(***************************************************************************)
(* String, regex and math built-ins on exact representations (C15).       *)
(* Strings are code-point sequences.  Every definition here is the        *)
(* defining equation of the property, not a transcription of the code:    *)
(* substring / prefix / suffix, left and right scans for split / rsplit,  *)
(* replace = join of split, trims as "strip while", byte-offset splitAt,  *)
(* a backtracking matcher for a regex subset (given as a syntax tree),    *)
(* integer abs / pow / log / lg on Big, sqrt / ceil / floor / round on    *)
(* the bits of a double.                                                   *)
(***************************************************************************)
EXTENDS Values

----------------------------------------------------------------------------
(* scans *)
StartsWith(s, p) == Len(p) <= Len(s) /\ SubSeq(s, 1, Len(p)) = p
EndsWith(s, p) == Len(p) <= Len(s) /\ SubSeq(s, Len(s) - Len(p) + 1, Len(s)) = p
MatchAt(s, n, i) == i >= 1 /\ i + Len(n) - 1 <= Len(s) /\ SubSeq(s, i, i + Len(n) - 1) = n

(* pieces of s between non-overlapping occurrences of n found scanning from the left; n # <<>> *)
RECURSIVE SplitL(_, _, _, _, _)
SplitL(s, n, i, start, acc) ==
    IF i + Len(n) - 1 > Len(s) THEN Append(acc, SubSeq(s, start, Len(s)))
    ELSE IF MatchAt(s, n, i) THEN SplitL(s, n, i + Len(n), i + Len(n), Append(acc, SubSeq(s, start, i - 1)))
    ELSE SplitL(s, n, i + 1, start, acc)
SplitLeft(s, n) == SplitL(s, n, 1, 1, <<>>)
(* scanning from the right; pieces are listed right to left *)
RECURSIVE SplitR(_, _, _, _, _)
SplitR(s, n, i, end, acc) ==       \* i = candidate start of an occurrence, end = last index of the current piece
    IF i < 1 THEN Append(acc, SubSeq(s, 1, end))
    ELSE IF MatchAt(s, n, i) /\ i + Len(n) - 1 <= end THEN SplitR(s, n, i - Len(n), i - 1, Append(acc, SubSeq(s, i + Len(n), end)))
    ELSE SplitR(s, n, i - 1, end, acc)
SplitRight(s, n) == SplitR(s, n, Len(s) - Len(n) + 1, Len(s), <<>>)

RECURSIVE Join(_, _, _)
Join(ps, d, i) == IF i > Len(ps) THEN <<>> ELSE IF i = Len(ps) THEN ps[i] ELSE ps[i] \o d \o Join(ps, d, i + 1)
ReplaceAll(s, n, to) == Join(SplitLeft(s, n), to, 1)

(* Unicode White_Space *)
IsWs(c) == c \in {9, 10, 11, 12, 13, 32, 133, 160, 5760, 8232, 8233, 8239, 8287, 12288} \/ (c >= 8192 /\ c <= 8202)
RECURSIVE TrimStartWs(_)
TrimStartWs(s) == IF s # <<>> /\ IsWs(s[1]) THEN TrimStartWs(Tail(s)) ELSE s
RECURSIVE TrimEndWs(_)
TrimEndWs(s) == IF s # <<>> /\ IsWs(s[Len(s)]) THEN TrimEndWs(SubSeq(s, 1, Len(s) - 1)) ELSE s
RECURSIVE StripPrefix(_, _)
StripPrefix(s, p) == IF StartsWith(s, p) THEN StripPrefix(SubSeq(s, Len(p) + 1, Len(s)), p) ELSE s
RECURSIVE StripSuffix(_, _)
StripSuffix(s, p) == IF EndsWith(s, p) THEN StripSuffix(SubSeq(s, 1, Len(s) - Len(p)), p) ELSE s
RECURSIVE Words(_, _, _, _)
Words(s, i, cur, acc) ==
    IF i > Len(s) THEN (IF cur = <<>> THEN acc ELSE Append(acc, cur))
    ELSE IF IsWs(s[i]) THEN Words(s, i + 1, <<>>, IF cur = <<>> THEN acc ELSE Append(acc, cur))
    ELSE Words(s, i + 1, Append(cur, s[i]), acc)

(* case mapping on a fixed alphabet; text outside it has no specified mapping *)
(* ... including pairs whose two cases differ in UTF-8 length: KELVIN SIGN (8490) / k, capital sharp s (7838) / 223, 570 / 11365 *)
CaseKnown(c) == c < 128 \/ c \in {201, 233, 223, 304, 963, 962, 8490, 7838, 570, 11365}
LowerOf(c) == IF c >= 65 /\ c <= 90 THEN <<c + 32>> ELSE IF c = 201 THEN <<233>> ELSE IF c = 304 THEN <<105, 775>>
              ELSE IF c = 8490 THEN <<107>> ELSE IF c = 7838 THEN <<223>> ELSE IF c = 570 THEN <<11365>> ELSE <<c>>
UpperOf(c) == IF c >= 97 /\ c <= 122 THEN <<c - 32>> ELSE IF c = 233 THEN <<201>> ELSE IF c = 223 THEN <<83, 83>>
              ELSE IF c \in {963, 962} THEN <<931>> ELSE IF c = 11365 THEN <<570>> ELSE <<c>>
AllCaseKnown(s) == \A i \in 1..Len(s) : CaseKnown(s[i])
RECURSIVE MapCase(_, _, _)
MapCase(s, i, lower) == IF i > Len(s) THEN <<>> ELSE (IF lower THEN LowerOf(s[i]) ELSE UpperOf(s[i])) \o MapCase(s, i + 1, lower)
ToLower(s) == MapCase(s, 1, TRUE)
ToUpper(s) == MapCase(s, 1, FALSE)

(* UTF-8 length of a code point; prefix of s with exactly `at` bytes *)
CpLen(cp) == IF cp < 128 THEN 1 ELSE IF cp < 2048 THEN 2 ELSE IF cp < 65536 THEN 3 ELSE 4
RECURSIVE PrefixOfBytes(_, _, _)
PrefixOfBytes(s, i, left) == IF left = 0 THEN i - 1       \* number of code points
                             ELSE IF i > Len(s) \/ CpLen(s[i]) > left THEN -1
                             ELSE PrefixOfBytes(s, i + 1, left - CpLen(s[i]))

----------------------------------------------------------------------------
(* regular expressions: a syntax tree                                                     *)
(*   [k |-> "chr", c] | [k |-> "any"] | [k |-> "cls", neg, ranges: Seq(<<lo, hi>>)]       *)
(*   [k |-> "cat", es] | [k |-> "alt", es] | [k |-> "star"|"plus"|"opt", e]               *)
(*   [k |-> "bol"] | [k |-> "eol"] | [k |-> "grp", e]                                      *)
(* ReEnds(re, s, i) = set of positions j such that re matches s[i..j-1]                    *)
RECURSIVE ReEnds(_, _, _), ReCat(_, _, _, _), ReStar(_, _, _, _)
ReEnds(re, s, i) ==
    CASE re.k = "chr" -> IF i <= Len(s) /\ s[i] = re.c THEN {i + 1} ELSE {}
      [] re.k = "any" -> IF i <= Len(s) /\ s[i] # 10 THEN {i + 1} ELSE {}
      [] re.k = "cls" -> IF i <= Len(s) /\ ((\E r \in 1..Len(re.ranges) : s[i] >= re.ranges[r][1] /\ s[i] <= re.ranges[r][2]) # re.neg) THEN {i + 1} ELSE {}
      [] re.k = "cat" -> ReCat(re.es, 1, s, {i})
      [] re.k = "alt" -> UNION {ReEnds(re.es[a], s, i) : a \in 1..Len(re.es)}
      [] re.k = "grp" -> ReEnds(re.e, s, i)
      [] re.k = "opt" -> {i} \cup ReEnds(re.e, s, i)
      [] re.k = "star" -> ReStar(re.e, s, {i}, {i})
      [] re.k = "plus" -> LET first == ReEnds(re.e, s, i) IN ReStar(re.e, s, first, first)
      [] re.k = "bol" -> IF i = 1 THEN {i} ELSE {}
      [] re.k = "eol" -> IF i = Len(s) + 1 THEN {i} ELSE {}
ReCat(es, k, s, starts) == IF k > Len(es) THEN starts
                           ELSE ReCat(es, k + 1, s, UNION {ReEnds(es[k], s, p) : p \in starts})
ReStar(e, s, frontier, seen) ==
    LET next == (UNION {ReEnds(e, s, p) : p \in frontier}) \ seen
    IN IF next = {} THEN seen ELSE ReStar(e, s, next, seen \cup next)
ReSearch(re, s) == \E i \in 1..(Len(s) + 1) : ReEnds(re, s, i) # {}
ReFull(re, s) == (Len(s) + 1) \in ReEnds(re, s, 1)

----------------------------------------------------------------------------
(* integer square root (Newton) and a correctly rounded double sqrt *)
RECURSIVE MISqrtIter(_, _)
MISqrtIter(n, x) == LET y == MShr(MAdd(x, MDivMod(n, x).q), 1)
                    IN IF MCmp(y, x) >= 0 THEN x ELSE MISqrtIter(n, y)
MISqrt(n) == IF n = <<>> THEN <<>> ELSE MISqrtIter(n, MPow2((MBitLen(n) + 1) \div 2 + 1))
DSqrt(d) ==
    IF DIsNaN(d) THEN DNaN
    ELSE IF DIsZero(d) THEN d
    ELSE IF d.neg THEN DNaN
    ELSE IF DIsInf(d) THEN d
    ELSE LET ex0 == DEx(d)
             sh  == IF (ex0 % 2) = 0 THEN 120 ELSE 121            \* make the exponent even
             n   == MShl(DSig(d), sh)
             r   == MISqrt(n)
         IN DRound(FALSE, r, (ex0 - sh) \div 2, MMul(r, r) # n)

(* floor(log_b(n)) for n >= 1 by repeated division *)
RECURSIVE ILog(_, _, _)
ILog(n, b, acc) == IF MCmp(n, b) < 0 THEN acc ELSE ILog(MDivMod(n, b).q, b, acc + 1)
=============================================================================
