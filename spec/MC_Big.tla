------------------------------ MODULE MC_Big ------------------------------
(* Self-check of the limb arithmetic against TLC's native integers. *)
EXTENDS Big, TLC
Pos == {0, 1, 2, 3, 7, 10, 99, 1000, 32767, 32768, 32769, 40000, 46340, 65535, 65536, 1000003, 16777216, 1073741823}
S == Pos \cup {-x : x \in Pos}
VARIABLES a, b
Init == a \in S /\ b \in S
Next == UNCHANGED <<a, b>>
A == BFromInt(a)
Bb == BFromInt(b)
Small(x) == x > -1073741824 /\ x < 1073741824
Abs(x) == IF x < 0 THEN -x ELSE x
TQ(x, y) == LET q == Abs(x) \div Abs(y) IN IF (x < 0) = (y < 0) THEN q ELSE -q
TR(x, y) == x - y * TQ(x, y)
OkRoundTrip == IsBig(A) /\ BToInt(A) = a
OkAdd == Small(a + b) => BAdd(A, Bb) = BFromInt(a + b)
OkSub == Small(a - b) => BSub(A, Bb) = BFromInt(a - b)
OkMul == (Abs(a) < 46341 /\ Abs(b) < 46341) => BMul(A, Bb) = BFromInt(a * b)
OkMulBig == LET p == BMul(A, Bb) IN IsBig(p) /\ (b # 0 => BDivT(p, Bb) = A /\ BRemT(p, Bb) = BZero)
OkDiv == b # 0 => BDivT(A, Bb) = BFromInt(TQ(a, b)) /\ BRemT(A, Bb) = BFromInt(TR(a, b))
OkCmp == BCmp(A, Bb) = (IF a < b THEN -1 ELSE IF a > b THEN 1 ELSE 0)
OkShift == a >= 0 => \A k \in {0, 1, 14, 15, 16, 31, 45} :
              /\ MShr(MShl(A.m, k), k) = A.m
              /\ MLowBits(MShl(A.m, k), k) = <<>>
              /\ MBitLen(MShl(A.m, k)) = (IF a = 0 THEN 0 ELSE MBitLen(A.m) + k)
              /\ MShr(A.m, k) = (IF k > 30 THEN <<>> ELSE MFromNat(a \div (2 ^ k)))
              /\ (k <= 30 => MLowBits(A.m, k) = MFromNat(a % (2 ^ k)))
OkDigits == a >= 0 => MFromDigits(MDigits(A.m), 10) = A.m
OkBigDiv == \* (a * 2^70 + b) / 2^70 with positive operands
   (a > 0 /\ b >= 0) => LET n == MAdd(MShl(A.m, 70), Bb.m) d == MDivMod(n, MPow2(70)) IN d.q = A.m /\ d.r = Bb.m
OkLongDiv == (a > 0 /\ b > 0) =>
   LET x == MMul(MPow(A.m, 3), <<5, 7, 11>>)  y == MMul(Bb.m, <<3, 1, 2>>)
       d == MDivMod(x, y)
   IN MAdd(MMul(d.q, y), d.r) = x /\ MCmp(d.r, y) < 0
=============================================================================
