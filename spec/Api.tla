-------------------------------- MODULE Api --------------------------------
(***************************************************************************)
(* The API history machine (C11, C12 rebinding, C19): context objects     *)
(* (name -> stored program) and binding objects (name -> value), created, *)
(* cloned, extended and executed in any order.                             *)
(*                                                                         *)
(* State st = [ctxs  : object id -> (program name -> [tree, src]),        *)
(*             binds : object id -> (variable name -> value),              *)
(*             funcs : object id -> (function name -> model function)]     *)
(* A binding object carries values and user functions (C12: in call       *)
(* position a bound function wins); cloning copies both.  SerRound takes   *)
(* the stored program of one context through serialization and back and   *)
(* stores it in a (possibly different) context under a (possibly          *)
(* different) name: by C19 the copy is the same program.                   *)
(* Apply(st, ev) is the effect of one API call; Exec and Details change   *)
(* nothing (purity); a clone is a copy (independence); add/bind replace.  *)
(* ExecOutcome(st, ev) is the abstract outcome Eval allows for an Exec:   *)
(* a function of the programs of that context and the values of that      *)
(* binding object only - not of history, other objects, or repetition.    *)
(***************************************************************************)
EXTENDS Eval

EmptyFn == [x \in {} |-> 0]
Put(f, k, v) == [x \in (DOMAIN f) \cup {k} |-> IF x = k THEN v ELSE f[x]]
St0 == [ctxs |-> EmptyFn, binds |-> EmptyFn, funcs |-> EmptyFn]

(* the user functions the harness can bind: each ignores its arguments and returns a fixed outcome *)
FuncModel == [k7   |-> [o |-> "ok", v |-> VInt(BFromInt(7))],
              k9   |-> [o |-> "ok", v |-> VInt(BFromInt(9))],
              kerr |-> [o |-> "err", c |-> "other"]]

Apply(st, ev) ==
    CASE ev.a = "NewCtx"    -> [st EXCEPT !.ctxs = Put(st.ctxs, ev.c, EmptyFn)]
      [] ev.a = "CloneCtx"  -> [st EXCEPT !.ctxs = Put(st.ctxs, ev.as, st.ctxs[ev.c])]
      [] ev.a = "AddProgram" -> IF ev.ok THEN [st EXCEPT !.ctxs = Put(st.ctxs, ev.c, Put(st.ctxs[ev.c], ev.n, [tree |-> ev.tree, src |-> ev.src]))]
                                ELSE st
      [] ev.a = "SerRound"  -> IF ev.ok /\ ev.n \in DOMAIN st.ctxs[ev.c]
                               THEN [st EXCEPT !.ctxs = Put(st.ctxs, ev.to, Put(st.ctxs[ev.to], ev.as, st.ctxs[ev.c][ev.n]))]
                               ELSE st
      [] ev.a = "NewBind"   -> [st EXCEPT !.binds = Put(st.binds, ev.b, EmptyFn), !.funcs = Put(st.funcs, ev.b, EmptyFn)]
      [] ev.a = "CloneBind" -> [st EXCEPT !.binds = Put(st.binds, ev.as, st.binds[ev.b]), !.funcs = Put(st.funcs, ev.as, st.funcs[ev.b])]
      [] ev.a = "BindFunc"  -> [st EXCEPT !.funcs = Put(st.funcs, ev.b, Put(st.funcs[ev.b], ev.n, ev.f))]
      [] ev.a = "BindParam" -> [st EXCEPT !.binds = Put(st.binds, ev.b, Put(st.binds[ev.b], ev.n, ev.v))]
      [] OTHER -> st         \* Exec, Details, serialization round trips: no effect on any object

Progs(st, c) == [n \in DOMAIN st.ctxs[c] |-> st.ctxs[c][n].tree]
ExecOutcome(st, ev) ==
    IF ~(ev.n \in DOMAIN st.ctxs[ev.c]) THEN [o |-> Err("absent"), log |-> <<>>, lk |-> TRUE]
    ELSE \* the program of that name is run (a variable of the same name does not stand in for it), entered like a reference
         LET e2 == [Env0(st.binds[ev.b], Progs(st, ev.c), [f \in DOMAIN st.funcs[ev.b] |-> FuncModel[st.funcs[ev.b][f]]]) EXCEPT !.u = 1, !.h = 1, !.path = {<<ev.n, st.binds[ev.b]>>}]
             e == AtDepth(e2, Eval(Progs(st, ev.c)[ev.n], e2))
         IN IF \E i \in 1..Len(e.log) : e.log[i] = "#depth" THEN [o |-> Weaken(e.o), log |-> <<>>, lk |-> FALSE] ELSE e

(* what the harness can observe of the state: sources by name, values by name *)
Projection(st) == [ctxs |-> [c \in DOMAIN st.ctxs |-> [n \in DOMAIN st.ctxs[c] |-> st.ctxs[c][n].src]],
                   binds |-> st.binds,
                   funcs |-> st.funcs]
=============================================================================
