CONSTANT W = 64
CONSTANT Levels = 2
INIT Init
NEXT Next
INVARIANT Inv
INVARIANT InvF
CHECK_DEADLOCK FALSE
