---------------------------- MODULE Trace_Total ----------------------------
(***************************************************************************)
(* C01 on recordings that carry nothing but an outcome (nesting ladders   *)
(* run in child processes): every public call ends in a value or an       *)
(* error - "crash" (panic, abort, stack exhaustion, timeout) is not an    *)
(* outcome of any action of the specification.                             *)
(***************************************************************************)
EXTENDS Integers, Sequences, TLC, Json, IOUtils

Rec == ndJsonDeserialize(IOEnv.TRACE)
VARIABLES l
Init == l = 1
Outcomes == {"ok", "err"}
Verdict(r) == IF r.out.o \in Outcomes THEN "ok" ELSE "crash"
Step == /\ l <= Len(Rec)
        /\ LET v == Verdict(Rec[l]) IN IF v = "ok" THEN TRUE ELSE PrintT(<<"VERDICT", Rec[l].id, v>>)
        /\ l' = l + 1
Done == /\ l = Len(Rec) + 1
        /\ PrintT(<<"SUMMARY", Len(Rec), 0, Len(Rec), 0>>)
        /\ l' = l + 1
Next == Step \/ Done
=============================================================================
