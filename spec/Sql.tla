-------------------------------- MODULE Sql --------------------------------
(***************************************************************************)
(* The SQL text produced from a CEL expression, read back independently   *)
(* (C20): a character-level lexer (ground / string / comment states), a   *)
(* parser for the emitted dialect and the correspondence between the SQL  *)
(* tree and the CEL tree: same operators, operand order and grouping,     *)
(* function names with arguments in source order, field and index paths,  *)
(* casts for the type constructors; every CEL string literal is exactly   *)
(* one SQL string token with the same content.                             *)
(***************************************************************************)
EXTENDS Integers, Sequences, FiniteSets

SBad == [bad |-> TRUE]
SIsBad(r) == "bad" \in DOMAIN r

IsIdStart(c) == (c >= 65 /\ c <= 90) \/ (c >= 97 /\ c <= 122) \/ c = 95
IsIdChar(c) == IsIdStart(c) \/ (c >= 48 /\ c <= 57)
IsNumChar(c) == (c >= 48 /\ c <= 57) \/ c = 46 \/ c = 101 \/ c = 69
IsSpace(c) == c \in {32, 9, 10, 13}

RECURSIVE SpanId(_, _)
SpanId(s, i) == IF i <= Len(s) /\ IsIdChar(s[i]) THEN SpanId(s, i + 1) ELSE i
RECURSIVE SpanNum(_, _)
SpanNum(s, i) == IF i <= Len(s) /\ IsNumChar(s[i]) THEN SpanNum(s, i + 1) ELSE i
(* end of a quoted string starting after the opening quote: [end, v] or bad; '' is an escaped quote *)
RECURSIVE StrBody(_, _, _)
StrBody(s, i, acc) == IF i > Len(s) THEN SBad
                      ELSE IF s[i] = 39 THEN (IF i + 1 <= Len(s) /\ s[i + 1] = 39 THEN StrBody(s, i + 2, Append(acc, 39))
                                              ELSE [i |-> i + 1, v |-> acc])
                      ELSE StrBody(s, i + 1, Append(acc, s[i]))
RECURSIVE LineEnd(_, _)
LineEnd(s, i) == IF i > Len(s) \/ s[i] = 10 THEN i ELSE LineEnd(s, i + 1)
RECURSIVE BlockEnd(_, _)
BlockEnd(s, i) == IF i + 1 > Len(s) THEN Len(s) + 1 ELSE IF s[i] = 42 /\ s[i + 1] = 47 THEN i + 2 ELSE BlockEnd(s, i + 1)

TwoCharOps == { <<58, 58>>, <<45, 62>>, <<60, 62>>, <<60, 61>>, <<62, 61>>, <<33, 61>>, <<124, 124>> }
RECURSIVE SqlLexFrom(_, _, _)
SqlLexFrom(s, i, acc) ==
    IF i > Len(s) THEN acc
    ELSE LET c == s[i] IN
      IF IsSpace(c) THEN SqlLexFrom(s, i + 1, acc)
      ELSE IF c = 39 THEN LET b == StrBody(s, i + 1, <<>>) IN IF SIsBad(b) THEN Append(acc, [k |-> "unterminated", v |-> <<>>]) ELSE SqlLexFrom(s, b.i, Append(acc, [k |-> "str", v |-> b.v]))
      ELSE IF c = 45 /\ i + 1 <= Len(s) /\ s[i + 1] = 45 THEN SqlLexFrom(s, LineEnd(s, i), Append(acc, [k |-> "comment", v |-> <<>>]))
      ELSE IF c = 47 /\ i + 1 <= Len(s) /\ s[i + 1] = 42 THEN SqlLexFrom(s, BlockEnd(s, i + 2), Append(acc, [k |-> "comment", v |-> <<>>]))
      ELSE IF IsIdStart(c) THEN LET e == SpanId(s, i) IN SqlLexFrom(s, e, Append(acc, [k |-> "id", v |-> SubSeq(s, i, e - 1)]))
      ELSE IF c >= 48 /\ c <= 57 THEN LET e == SpanNum(s, i) IN SqlLexFrom(s, e, Append(acc, [k |-> "num", v |-> SubSeq(s, i, e - 1)]))
      ELSE IF i + 2 <= Len(s) /\ SubSeq(s, i, i + 2) = <<45, 62, 62>> THEN SqlLexFrom(s, i + 3, Append(acc, [k |-> "op", v |-> <<45, 62, 62>>]))
      ELSE IF i + 1 <= Len(s) /\ SubSeq(s, i, i + 1) \in TwoCharOps THEN SqlLexFrom(s, i + 2, Append(acc, [k |-> "op", v |-> SubSeq(s, i, i + 1)]))
      ELSE SqlLexFrom(s, i + 1, Append(acc, [k |-> "op", v |-> <<c>>]))
SqlLex(s) == SqlLexFrom(s, 1, <<>>)

----------------------------------------------------------------------------
(* parser for the emitted dialect *)
Lower(v) == [i \in 1..Len(v) |-> IF v[i] >= 65 /\ v[i] <= 90 THEN v[i] + 32 ELSE v[i]]
IsOp(ts, i, v) == i <= Len(ts) /\ ts[i].k = "op" /\ ts[i].v = v
IsKw(ts, i, w) == i <= Len(ts) /\ ts[i].k = "id" /\ Lower(ts[i].v) = w
W_case == <<99, 97, 115, 101>>   W_when == <<119, 104, 101, 110>>   W_true == <<116, 114, 117, 101>>   W_then == <<116, 104, 101, 110>>
W_else == <<101, 108, 115, 101>> W_end == <<101, 110, 100>>         W_false == <<102, 97, 108, 115, 101>> W_null == <<110, 117, 108, 108>>
W_and == <<97, 110, 100>>        W_or == <<111, 114>>               W_in == <<105, 110>>                 W_array == <<97, 114, 114, 97, 121>>
W_bool == <<98, 111, 111, 108>>  W_json == <<106, 115, 111, 110>>   W_jbo == <<106, 115, 111, 110, 95, 98, 117, 105, 108, 100, 95, 111, 98, 106, 101, 99, 116>>
BinOpOf(ts, i) ==   \* the CEL operator a token stands for, or ""
    IF i > Len(ts) THEN ""
    ELSE IF ts[i].k = "op" THEN
         (CASE ts[i].v = <<43>> -> "+" [] ts[i].v = <<45>> -> "-" [] ts[i].v = <<42>> -> "*" [] ts[i].v = <<47>> -> "/" [] ts[i].v = <<37>> -> "%"
            [] ts[i].v = <<61>> -> "==" [] ts[i].v = <<60, 62>> -> "!=" [] ts[i].v = <<60>> -> "<" [] ts[i].v = <<60, 61>> -> "<="
            [] ts[i].v = <<62>> -> ">" [] ts[i].v = <<62, 61>> -> ">=" [] OTHER -> "")
    ELSE IF IsKw(ts, i, W_and) THEN "&&" ELSE IF IsKw(ts, i, W_or) THEN "||" ELSE IF IsKw(ts, i, W_in) THEN "in" ELSE ""
SRes(n, i) == [n |-> n, i |-> i]

RECURSIVE SE(_, _), SP(_, _), SPost(_, _, _), SArgs(_, _, _, _), SRun(_, _, _)
SE(ts, i) == LET l == SP(ts, i) IN
             IF SIsBad(l) THEN SBad
             ELSE LET op == BinOpOf(ts, l.i) IN
                  IF op = "" THEN l
                  ELSE LET r == SP(ts, l.i + 1) IN IF SIsBad(r) THEN SBad ELSE SRes([k |-> "bin", op |-> op, l |-> l.n, r |-> r.n], r.i)
SArgs(ts, i, closer, acc) ==
    IF IsOp(ts, i, closer) THEN SRes(acc, i + 1)
    ELSE LET e == SE(ts, i) IN
         IF SIsBad(e) THEN SBad
         ELSE IF IsOp(ts, e.i, <<44>>) THEN SArgs(ts, e.i + 1, closer, Append(acc, e.n))
         ELSE IF IsOp(ts, e.i, closer) THEN SRes(Append(acc, e.n), e.i + 1) ELSE SBad
SRun(ts, i, v) == IF IsOp(ts, i, v) THEN SRun(ts, i + 1, v) ELSE i
SP(ts, i) ==
    IF i > Len(ts) THEN SBad
    ELSE IF IsOp(ts, i, <<40>>) THEN
         (IF IsOp(ts, i + 1, <<33>>) \/ (IsOp(ts, i + 1, <<45>>) /\ ~(i + 2 <= Len(ts) /\ ts[i + 2].k = "num" /\ IsOp(ts, i + 3, <<41>>) /\ FALSE))
          THEN LET v == ts[i + 1].v
                   j == SRun(ts, i + 1, v)
                   e == SP(ts, j)
               IN IF SIsBad(e) THEN SBad ELSE IF ~IsOp(ts, e.i, <<41>>) THEN SBad
                  ELSE SPost(ts, e.i + 1, [k |-> "un", op |-> IF v = <<33>> THEN "!" ELSE "-", n |-> j - (i + 1), e |-> e.n])
          ELSE LET e == SE(ts, i + 1) IN
               IF SIsBad(e) THEN SBad ELSE IF ~IsOp(ts, e.i, <<41>>) THEN SBad ELSE SPost(ts, e.i + 1, [k |-> "paren", e |-> e.n]))
    ELSE IF IsKw(ts, i, W_case) THEN
         LET c == SP(ts, i + 1) IN      \* (C)::bool parses as a cast of a paren
         IF SIsBad(c) THEN SBad
         ELSE IF ~(IsKw(ts, c.i, W_when) /\ IsKw(ts, c.i + 1, W_true) /\ IsKw(ts, c.i + 2, W_then)) THEN SBad
         ELSE LET a == SP(ts, c.i + 3) IN
              IF SIsBad(a) THEN SBad ELSE IF ~IsKw(ts, a.i, W_else) THEN SBad
              ELSE LET b == SP(ts, a.i + 1) IN
                   IF SIsBad(b) THEN SBad ELSE IF ~IsKw(ts, b.i, W_end) THEN SBad
                   ELSE IF ~(c.n.k = "cast" /\ c.n.ty = W_bool) THEN SBad
                   ELSE SPost(ts, b.i + 1, [k |-> "tern", c |-> c.n.e, a |-> a.n, b |-> b.n])
    ELSE IF IsKw(ts, i, W_array) /\ IsOp(ts, i + 1, <<91>>) THEN
         LET es == SArgs(ts, i + 2, <<93>>, <<>>) IN IF SIsBad(es) THEN SBad ELSE SPost(ts, es.i, [k |-> "list", es |-> es.n])
    ELSE IF IsKw(ts, i, W_jbo) /\ IsOp(ts, i + 1, <<40>>) THEN
         LET es == SArgs(ts, i + 2, <<41>>, <<>>) IN
         IF SIsBad(es) \/ Len(es.n) % 2 = 1 THEN SBad
         ELSE SPost(ts, es.i, [k |-> "map", kv |-> [j \in 1..(Len(es.n) \div 2) |-> <<es.n[2 * j - 1], es.n[2 * j]>>]])
    ELSE IF ts[i].k = "str" THEN SPost(ts, i + 1, [k |-> "lit", lk |-> "str", v |-> ts[i].v])
    ELSE IF ts[i].k = "num" THEN SPost(ts, i + 1, [k |-> "lit", lk |-> "num", v |-> ts[i].v])
    ELSE IF ts[i].k = "id" THEN
         (IF Lower(ts[i].v) \in {W_true, W_false, W_null} THEN SPost(ts, i + 1, [k |-> "lit", lk |-> "kw", v |-> Lower(ts[i].v)])
          ELSE SPost(ts, i + 1, [k |-> "id", nc |-> ts[i].v]))
    ELSE SBad
(* type names may be two words ("double precision") *)
SPost(ts, i, cur) ==
    IF IsOp(ts, i, <<45, 62>>) \/ IsOp(ts, i, <<45, 62, 62>>) THEN
       (IF i + 1 <= Len(ts) /\ ts[i + 1].k = "str" THEN SPost(ts, i + 2, [k |-> "sel", e |-> cur, fc |-> ts[i + 1].v]) ELSE SBad)
    ELSE IF IsOp(ts, i, <<58, 58>>) THEN
       (IF i + 1 <= Len(ts) /\ ts[i + 1].k = "id"
        THEN LET two == i + 2 <= Len(ts) /\ ts[i + 2].k = "id" /\ Lower(ts[i + 2].v) = <<112, 114, 101, 99, 105, 115, 105, 111, 110>>
             IN SPost(ts, IF two THEN i + 3 ELSE i + 2, [k |-> "cast", e |-> cur, ty |-> Lower(ts[i + 1].v)])
        ELSE SBad)
    ELSE IF IsOp(ts, i, <<91>>) THEN
       LET e == SE(ts, i + 1) IN IF SIsBad(e) THEN SBad ELSE IF ~IsOp(ts, e.i, <<93>>) THEN SBad ELSE SPost(ts, e.i + 1, [k |-> "idx", e |-> cur, i |-> e.n])
    ELSE IF IsOp(ts, i, <<40>>) THEN
       LET as == SArgs(ts, i + 1, <<41>>, <<>>) IN
       IF SIsBad(as) THEN SBad
       ELSE SPost(ts, as.i, IF cur.k = "id" THEN [k |-> "call", fc |-> cur.nc, args |-> as.n] ELSE [k |-> "callx", e |-> cur, args |-> as.n])
    ELSE SRes(cur, i)
SqlParse(ts) == IF \E i \in 1..Len(ts) : ts[i].k = "unterminated" THEN SBad
                ELSE LET r == SE(ts, 1) IN IF SIsBad(r) THEN SBad ELSE IF r.i # Len(ts) + 1 THEN SBad ELSE r.n

----------------------------------------------------------------------------
(* correspondence between a SQL tree and a CEL tree (parentheses are grouping only) *)
RECURSIVE Unparen(_)
Unparen(t) == IF t.k = "paren" THEN Unparen(t.e) ELSE IF t.k = "idx" /\ FALSE THEN t ELSE t
CastTypes == [int |-> <<105, 110, 116, 101, 103, 101, 114>>, uint |-> <<98, 105, 103, 105, 110, 116>>,
              float |-> <<100, 111, 117, 98, 108, 101>>, double |-> <<100, 111, 117, 98, 108, 101>>,
              string |-> <<116, 101, 120, 116>>, bool |-> <<98, 111, 111, 108, 101, 97, 110>>, bytes |-> <<98, 121, 116, 101, 97>>,
              timestamp |-> <<116, 105, 109, 101, 115, 116, 97, 109, 112>>, duration |-> <<105, 110, 116, 101, 114, 118, 97, 108>>]
RECURSIVE Corr(_, _), CorrSeq(_, _, _)
CorrSeq(ss, ts, i) == IF Len(ss) # Len(ts) THEN FALSE ELSE IF i > Len(ss) THEN TRUE ELSE Corr(ss[i], ts[i]) /\ CorrSeq(ss, ts, i + 1)
Corr(s0, t0) ==
    LET s == Unparen(s0)  t == Unparen(t0) IN
    CASE t.k = "lit" ->
           (CASE t.v.t = "str" -> s.k = "lit" /\ s.lk = "str" /\ s.v = t.v.s
              [] t.v.t \in {"int", "uint", "dbl"} -> s.k = "lit" /\ s.lk = "num"
              [] t.v.t = "bool" -> s.k = "lit" /\ s.lk = "kw" /\ s.v = (IF t.v.b THEN W_true ELSE W_false)
              [] t.v.t = "null" -> s.k = "lit" /\ s.lk = "kw" /\ s.v = W_null
              [] OTHER -> FALSE)
      [] t.k = "id" -> s.k = "id" /\ s.nc = t.nc
      [] t.k = "un" -> s.k = "un" /\ s.op = t.op /\ s.n = t.n /\ Corr(s.e, t.e)
      [] t.k = "bin" -> s.k = "bin" /\ s.op = t.op /\ Corr(s.l, t.l) /\ Corr(s.r, t.r)
      [] t.k = "tern" -> s.k = "tern" /\ Corr(s.c, t.c) /\ Corr(s.a, t.a) /\ Corr(s.b, t.b)
      [] t.k = "list" -> s.k = "list" /\ CorrSeq(s.es, t.es, 1)
      [] t.k = "map" -> (IF Len(t.kv) = 0 THEN s.k = "cast" /\ s.ty = W_json
                         ELSE s.k = "map" /\ Len(s.kv) = Len(t.kv) /\ \A i \in 1..Len(t.kv) : Corr(s.kv[i][1], t.kv[i][1]) /\ Corr(s.kv[i][2], t.kv[i][2]))
      [] t.k = "sel" -> s.k = "sel" /\ s.fc = t.fc /\ Corr(s.e, t.e)
      [] t.k = "idx" -> s.k = "idx" /\ Corr(s.e, t.e) /\ Corr(s.i, t.i)
      [] t.k = "call" -> IF t.f \in DOMAIN CastTypes /\ Len(t.args) = 1 THEN s.k = "cast" /\ s.ty = CastTypes[t.f] /\ Corr(s.e, t.args[1])
                         ELSE IF t.f \in DOMAIN CastTypes /\ Len(t.args) = 0 THEN s.k = "cast" /\ s.ty = CastTypes[t.f]
                         ELSE s.k = "call" /\ s.fc = t.fc /\ CorrSeq(s.args, t.args, 1)
      [] t.k = "mcall" -> s.k = "callx" /\ Unparen(s.e).k = "sel" /\ Unparen(s.e).fc = t.fc /\ Corr(Unparen(s.e).e, t.r) /\ CorrSeq(s.args, t.args, 1)
      [] OTHER -> FALSE

Translatable(t) ==    \* constructs that have a translation
    LET RECURSIVE Tr(_)
        Tr(x) == CASE x.k = "lit" -> x.v.t \in {"str", "int", "uint", "dbl", "bool", "null"}
                   [] x.k = "id" -> TRUE
                   [] x.k \in {"un", "paren", "sel"} -> Tr(x.e)
                   [] x.k = "bin" -> Tr(x.l) /\ Tr(x.r)
                   [] x.k = "tern" -> Tr(x.c) /\ Tr(x.a) /\ Tr(x.b)
                   [] x.k = "list" -> \A i \in 1..Len(x.es) : Tr(x.es[i])
                   [] x.k = "map" -> \A i \in 1..Len(x.kv) : Tr(x.kv[i][1]) /\ Tr(x.kv[i][2])
                   [] x.k = "idx" -> Tr(x.e) /\ Tr(x.i)
                   [] x.k = "call" -> \A i \in 1..Len(x.args) : Tr(x.args[i])
                   [] x.k = "mcall" -> Tr(x.r) /\ \A i \in 1..Len(x.args) : Tr(x.args[i])
                   [] OTHER -> FALSE
    IN Tr(t)
=============================================================================
