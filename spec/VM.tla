--------------------------------- MODULE VM ---------------------------------
(***************************************************************************)
(* The stack VM, shaped like rscel/src/interp/interp.rs (C05 C07 C10 C12):*)
(* one clause per opcode, identifiers resolved lazily when popped (type,  *)
(* variable, stored program, else an absent-failure value), failures as   *)
(* values on the soft path and aborts of the whole evaluation on the hard *)
(* path, one depth counter per activation chain (macro bodies continue    *)
(* the caller's count), macros receiving unevaluated code blocks.         *)
(*                                                                         *)
(* RunBlock(prog, code, env, count) = [k, v, log]                             *)
(*    k = "ok":   the block's value v (possibly a failure value)           *)
(*    k = "hard": evaluation aborted with class v.c (depth |-> TRUE when   *)
(*                it ran out of depth)                                     *)
(* prog = sequence of blocks (block 1 is the program), as the harness      *)
(* records real bytecode and as Compile.tla emits it.                      *)
(***************************************************************************)
EXTENDS Eval

ErrV(c) == [t |-> "err", c |-> c]
ErrD == [t |-> "err", c |-> "other", d |-> TRUE]      \* the depth failure as a value inside a macro: call_macro turns it back into an abort
ErrOfHard(h) == IF h.depth THEN ErrD ELSE ErrV(h.c)
Unk == [t |-> "unknown"]                         \* a value no property determines: poisons the result
IsErrV(v) == v.t = "err"
IsUnk(v) == v.t = "unknown"
Hard(c, log) == [k |-> "hard", v |-> [c |-> c, depth |-> FALSE], log |-> log]
HardOob(log) == [k |-> "hard", v |-> [c |-> "other", depth |-> FALSE, oob |-> TRUE], log |-> log]     \* a jump out of the block
HardDepth(log) == [k |-> "hard", v |-> [c |-> "other", depth |-> TRUE], log |-> Append(log, "#depth")]   \* the marker Eval uses too
OkR(v, log) == [k |-> "ok", v |-> v, log |-> log]
DepthLimit == 32
(* a code operand is either a reference into the recorded block table or carries its instructions *)
BlockOf(prog, item) == IF "c" \in DOMAIN item THEN item.c ELSE prog[item.b]

(* an abstract outcome of Values/Builtins as a stack value *)
OfOutcome(o) == CASE o.o = "ok" -> o.v [] o.o = "err" /\ o.c # "either" -> ErrV(o.c) [] OTHER -> Unk
Strict2V(F(_, _), a, b) == IF IsErrV(a) THEN a ELSE IF IsUnk(a) THEN Unk ELSE IF IsErrV(b) THEN b ELSE IF IsUnk(b) THEN Unk ELSE OfOutcome(F(a, b))
TruthyV(v) == IF IsErrV(v) \/ IsUnk(v) \/ v.t \in {"ident", "code", "bound"} THEN FALSE ELSE Truthy(v)

(* env = [vars, progs (name -> blocks), funcs] *)
VBind(env, x, v) == [env EXCEPT !.vars = [n \in (DOMAIN env.vars) \cup {x} |-> IF n = x THEN v ELSE env.vars[n]]]

RECURSIVE RunBlock(_, _, _, _), Exec(_, _, _, _, _, _, _), Resolve(_, _, _, _, _), ResolveArgs(_, _, _, _, _, _, _),
          MacroFold(_, _, _, _, _, _, _, _, _), MacroReduce(_, _, _, _, _, _, _, _, _, _), CoalesceV(_, _, _, _, _, _)

(* resolving a popped stack item to a value: [k |-> "ok"|"hard", v, log] *)
Resolve(item, prog, env, count, log) ==
    IF item.t = "ident" THEN
       (IF item.n \in TypeNames THEN OkR(VType(CanonType(item.n)), log)
        ELSE IF item.n \in DOMAIN env.vars THEN OkR(env.vars[item.n], log)
        ELSE IF item.n \in DOMAIN env.progs THEN
             LET r == RunBlock(env.progs[item.n], env.progs[item.n][1], env, count) IN
             IF r.k = "hard" THEN (IF r.v.depth THEN [r EXCEPT !.log = log \o r.log] ELSE OkR(ErrV(r.v.c), log \o r.log))
             ELSE OkR(r.v, log \o r.log)
        ELSE OkR(ErrV("absent"), Append(log, "#unres")))              \* the interpreter notes that a name did not resolve
    ELSE IF item.t = "bound" THEN OkR(ErrV("absent"), log)          \* a method selected but not called reads as a missing attribute
    ELSE OkR(item, log)

(* the API-level outcome of a finished block: the top of the stack, resolved *)
Finish(stack, prog, env, count, log) ==
    IF stack = <<>> THEN Hard("other", log)
    ELSE LET r == Resolve(stack[Len(stack)], prog, env, count, log) IN
         IF r.k = "hard" THEN r
         ELSE IF IsErrV(r.v) THEN [k |-> "hard", v |-> [c |-> r.v.c, depth |-> "d" \in DOMAIN r.v], log |-> r.log]   \* into_result
         ELSE r

RunBlock(prog, code, env, count) ==
    IF count + 1 > DepthLimit THEN HardDepth(<<>>)
    ELSE Exec(prog, code, 0, <<>>, env, count + 1, <<>>)

Pop1(st) == SubSeq(st, 1, Len(st) - 1)
Pop2(st) == SubSeq(st, 1, Len(st) - 2)
BinF(op, a, b) == CASE op = "ADD" -> Arith("+", a, b) [] op = "SUB" -> Arith("-", a, b) [] op = "MUL" -> Arith("*", a, b)
                    [] op = "DIV" -> Arith("/", a, b) [] op = "MOD" -> Arith("%", a, b)
                    [] op = "LT" -> RelOp("<", a, b) [] op = "LE" -> RelOp("<=", a, b) [] op = "EQ" -> RelOp("==", a, b)
                    [] op = "NE" -> RelOp("!=", a, b) [] op = "GE" -> RelOp(">=", a, b) [] op = "GT" -> RelOp(">", a, b)
                    [] op = "IN" -> In(a, b) [] op = "INDEX" -> Index(a, b)
BinOps == {"ADD", "SUB", "MUL", "DIV", "MOD", "LT", "LE", "EQ", "NE", "GE", "GT", "IN", "INDEX"}
FuncNames(env) == (DOMAIN env.funcs) \cup BuiltinNames
VMacroNames == {"has", "coalesce", "all", "exists", "exists_one", "filter", "map", "reduce"}
(* the compile-time bindings lack has and coalesce *)
MacrosOf(env) == IF "nomacros" \in DOMAIN env THEN VMacroNames \ env.nomacros ELSE VMacroNames

(* argument blocks evaluated in order; the first failure is the call's result *)
ResolveArgs(args, i, prog, env, count, log, acc) ==
    IF i > Len(args) THEN [k |-> "ok", vals |-> acc, log |-> log]
    ELSE IF args[i].t # "code" THEN ResolveArgs(args, i + 1, prog, env, count, log, Append(acc, args[i]))
    ELSE LET r == RunBlock(prog, BlockOf(prog, args[i]), env, count) IN
         IF r.k = "hard" THEN (IF r.v.depth THEN [k |-> "hard", v |-> r.v, log |-> log \o r.log] ELSE [k |-> "fail", v |-> ErrV(r.v.c), log |-> log \o r.log])
         ELSE ResolveArgs(args, i + 1, prog, env, count, log \o r.log, Append(acc, r.v))

CallFunction(f, bound, recv, vals, env, log) ==
    IF f \in DOMAIN env.funcs THEN OkR(IF env.funcs[f].o = "ok" THEN env.funcs[f].v ELSE ErrV(env.funcs[f].c), Append(log, f))
    ELSE IF (\E k \in 1..Len(vals) : IsUnk(vals[k]) \/ IsErrV(vals[k]) \/ vals[k].t = "code") \/ IsUnk(recv) \/ IsErrV(recv) THEN OkR(Unk, log)
    ELSE OkR(OfOutcome(CallBuiltin(f, bound, recv, vals)), log)

(* the name of the loop variable: a block that is a single PUSH ident *)
LoopVar(prog, item) == IF item.t = "code" /\ Len(BlockOf(prog, item)) = 1 /\ BlockOf(prog, item)[1].op = "PUSH" /\ BlockOf(prog, item)[1].v.t = "ident"
                       THEN BlockOf(prog, item)[1].v.n ELSE ""

MacroFold(kind, xs, i, x, bodies, prog, env, count, st) ==
    IF i > Len(xs) THEN OkR(CASE kind = "all" -> VTrue [] kind = "exists" -> VFalse [] kind = "exists_one" -> VBool(st.n = 1) [] OTHER -> VList(st.acc), st.log)
    ELSE LET e2 == VBind(env, x, xs[i])
             p  == RunBlock(prog, BlockOf(prog, bodies[1]), e2, count)
             lg == st.log \o p.log
         IN IF p.k = "hard" THEN OkR(ErrOfHard(p.v), lg)           \* err.into(): depth failures too
            ELSE IF IsUnk(p.v) THEN OkR(Unk, lg)
            ELSE LET tv == TruthyV(p.v) IN
              CASE kind = "all" -> IF tv THEN MacroFold(kind, xs, i + 1, x, bodies, prog, env, count, [st EXCEPT !.log = lg]) ELSE OkR(VFalse, lg)
                [] kind = "exists" -> IF tv THEN OkR(VTrue, lg) ELSE MacroFold(kind, xs, i + 1, x, bodies, prog, env, count, [st EXCEPT !.log = lg])
                [] kind = "exists_one" -> IF tv /\ st.n = 1 THEN OkR(VFalse, lg)
                                          ELSE MacroFold(kind, xs, i + 1, x, bodies, prog, env, count, [st EXCEPT !.log = lg, !.n = IF tv THEN st.n + 1 ELSE st.n])
                [] kind = "filter" -> MacroFold(kind, xs, i + 1, x, bodies, prog, env, count, [st EXCEPT !.log = lg, !.acc = IF tv THEN Append(st.acc, xs[i]) ELSE st.acc])
                [] kind = "map2" -> MacroFold(kind, xs, i + 1, x, bodies, prog, env, count, [st EXCEPT !.log = lg, !.acc = Append(st.acc, p.v)])
                [] kind = "map3" ->
                     IF ~tv THEN MacroFold(kind, xs, i + 1, x, bodies, prog, env, count, [st EXCEPT !.log = lg])
                     ELSE LET q == RunBlock(prog, BlockOf(prog, bodies[2]), e2, count)  lg2 == lg \o q.log IN
                          IF q.k = "hard" THEN OkR(ErrOfHard(q.v), lg2)
                          ELSE IF IsUnk(q.v) THEN OkR(Unk, lg2)
                          ELSE MacroFold(kind, xs, i + 1, x, bodies, prog, env, count, [st EXCEPT !.log = lg2, !.acc = Append(st.acc, q.v)])
MacroReduce(xs, i, accN, x, step, prog, env, count, acc, log) ==
    IF i > Len(xs) THEN OkR(acc, log)
    ELSE LET e2 == VBind(VBind(env, x, xs[i]), accN, acc)
             p == RunBlock(prog, BlockOf(prog, step), e2, count)
             lg == log \o p.log
         IN IF p.k = "hard" THEN OkR(ErrOfHard(p.v), lg)
            ELSE IF IsUnk(p.v) THEN OkR(Unk, lg)
            ELSE MacroReduce(xs, i + 1, accN, x, step, prog, env, count, p.v, lg)
CoalesceV(args, i, prog, env, count, log) ==
    IF i > Len(args) THEN OkR(VNull, log)
    ELSE LET r == RunBlock(prog, BlockOf(prog, args[i]), env, count)  lg == log \o r.log IN
         IF r.k = "hard" THEN (IF r.v.c = "absent" THEN CoalesceV(args, i + 1, prog, env, count, lg) ELSE OkR(ErrOfHard(r.v), lg))
         ELSE IF r.v = VNull THEN CoalesceV(args, i + 1, prog, env, count, lg)
         ELSE OkR(r.v, lg)

(* args: popped items in pop order = source order of the arguments *)
CallMacro(m, recv, args, prog, env, count, log) ==
    IF \E i \in 1..Len(args) : args[i].t # "code" THEN Hard("other", log)
    ELSE IF m = "has" THEN
         (IF Len(args) # 1 THEN OkR(ErrV("other"), log)
          ELSE LET r == RunBlock(prog, BlockOf(prog, args[1]), env, count) IN
               IF r.k = "hard" THEN OkR(IF r.v.c = "absent" THEN VFalse ELSE ErrOfHard(r.v), log \o r.log)
               ELSE OkR(IF IsUnk(r.v) THEN Unk ELSE VTrue, log \o r.log))
    ELSE IF m = "coalesce" THEN CoalesceV(args, 1, prog, env, count, log)
    ELSE IF m = "reduce" THEN
         (IF Len(args) # 4 \/ LoopVar(prog, args[1]) = "" \/ LoopVar(prog, args[2]) = "" THEN OkR(ErrV("other"), log)
          ELSE LET seed == RunBlock(prog, BlockOf(prog, args[4]), env, count) IN
               IF seed.k = "hard" THEN OkR(ErrOfHard(seed.v), log \o seed.log)
               ELSE IF IsUnk(seed.v) \/ IsUnk(recv) THEN OkR(Unk, log \o seed.log)
               ELSE IF recv.t # "list" THEN OkR(ErrV("other"), log \o seed.log)
               ELSE MacroReduce(recv.s, 1, LoopVar(prog, args[1]), LoopVar(prog, args[2]), args[3], prog, env, count, seed.v, log \o seed.log))
    ELSE LET n == Len(args) IN
         IF ~((n = 2) \/ (n = 3 /\ m = "map")) \/ (n >= 1 /\ LoopVar(prog, args[1]) = "") THEN OkR(ErrV("other"), log)
         ELSE IF IsUnk(recv) THEN OkR(Unk, log)
         ELSE IF recv.t = "list" THEN
              MacroFold(IF m = "map" THEN (IF n = 2 THEN "map2" ELSE "map3") ELSE m, recv.s, 1, LoopVar(prog, args[1]), SubSeq(args, 2, n), prog, env, count,
                        [log |-> log, n |-> 0, acc |-> <<>>])
         ELSE IF recv.t = "map" /\ m \in {"map", "filter"} THEN
              (IF Len(recv.kv) <= 1
               THEN MacroFold(IF m = "map" THEN (IF n = 2 THEN "map2" ELSE "map3") ELSE m, [i \in 1..Len(recv.kv) |-> VStr(recv.kv[i][1])], 1,
                              LoopVar(prog, args[1]), SubSeq(args, 2, n), prog, env, count, [log |-> log, n |-> 0, acc |-> <<>>])
               ELSE OkR(Unk, log))
         ELSE OkR(ErrV("other"), log)

(* pop n items (top first), each resolved like stack.pop(): identifiers become values, code stays code *)
RECURSIVE PopArgs(_, _, _, _, _, _, _)
PopArgs(stack, n, prog, env, count, log, acc) ==
    IF n = 0 THEN [k |-> "ok", stack |-> stack, args |-> acc, log |-> log]
    ELSE IF stack = <<>> THEN [k |-> "hard", v |-> [c |-> "other", depth |-> FALSE], log |-> log]
    ELSE LET r == Resolve(stack[Len(stack)], prog, env, count, log) IN
         IF r.k = "hard" THEN r
         ELSE PopArgs(Pop1(stack), n - 1, prog, env, count, r.log, Append(acc, r.v))

(* one instruction: [k |-> "next", pc, stack, log], or a final result ("hard", or "ok" with an undetermined value) *)
Nx(pc, stack, log) == [k |-> "next", pc |-> pc, stack |-> stack, log |-> log]
Step1(prog, code, pc, stack, env, count, log) ==
    LET i == code[pc + 1]  n == Len(stack) IN
      IF i.op = "PUSH" THEN Nx(pc + 1, Append(stack, i.v), log)
      ELSE IF i.op = "JMP" THEN (IF pc + 1 + i.d < 0 \/ pc + 1 + i.d > Len(code) THEN HardOob(log) ELSE Nx(pc + 1 + i.d, stack, log))
      ELSE IF n = 0 THEN Hard("other", log)
      ELSE IF i.op \in {"POP", "TEST", "DUP", "NOT", "NEG", "JMPC"} THEN
           LET r == Resolve(stack[n], prog, env, count, log) IN
           IF r.k = "hard" THEN r
           ELSE LET v == r.v  rest == Pop1(stack) IN
             CASE i.op = "POP" -> Nx(pc + 1, rest, r.log)
               [] i.op = "DUP" -> Nx(pc + 1, rest \o <<v, v>>, r.log)
               [] i.op = "TEST" -> Nx(pc + 1, Append(rest, IF IsErrV(v) \/ IsUnk(v) THEN v ELSE VBool(TruthyV(v))), r.log)
               [] i.op = "NOT" -> Nx(pc + 1, Append(rest, IF IsErrV(v) \/ IsUnk(v) THEN v ELSE OfOutcome(Not(v))), r.log)
               [] i.op = "NEG" -> Nx(pc + 1, Append(rest, IF IsErrV(v) \/ IsUnk(v) THEN v ELSE OfOutcome(Neg(v))), r.log)
               [] i.op = "JMPC" ->
                    LET target == pc + 1 + i.d
                        taken == IF v.t = "bool" THEN v.b = i.when ELSE ~i.when
                    IN IF IsUnk(v) THEN OkR(Unk, r.log)                  \* which way is not determined: give up on this run
                       ELSE IF v.t \notin {"bool", "err"} THEN Hard("other", r.log)
                       ELSE IF taken /\ (target < 0 \/ target > Len(code)) THEN HardOob(r.log)
                       ELSE Nx(IF taken THEN target ELSE pc + 1, rest, r.log)
      ELSE IF i.op \in BinOps \cup {"OR", "AND"} THEN
           (IF n < 2 THEN Hard("other", log)
            ELSE LET r2 == Resolve(stack[n], prog, env, count, log) IN
                 IF r2.k = "hard" THEN r2
                 ELSE LET r1 == Resolve(stack[n - 1], prog, env, count, r2.log) IN
                      IF r1.k = "hard" THEN r1
                      ELSE LET a == r1.v  b == r2.v
                               F(x, y) == BinF(i.op, x, y)
                               res == IF i.op = "OR"
                                      THEN (IF IsUnk(a) \/ IsUnk(b) THEN (IF TruthyV(a) \/ TruthyV(b) THEN VTrue ELSE Unk)
                                            ELSE IF IsErrV(a) THEN (IF TruthyV(b) THEN VTrue ELSE a)
                                            ELSE IF IsErrV(b) THEN (IF TruthyV(a) THEN VTrue ELSE b)
                                            ELSE VBool(TruthyV(a) \/ TruthyV(b)))
                                      ELSE IF i.op = "AND"
                                      THEN (IF IsErrV(a) THEN a ELSE IF IsUnk(a) THEN Unk ELSE IF IsErrV(b) THEN b ELSE IF IsUnk(b) THEN Unk ELSE VBool(TruthyV(a) /\ TruthyV(b)))
                                      ELSE Strict2V(F, a, b)
                           IN Nx(pc + 1, Append(Pop2(stack), res), r1.log))
      ELSE IF i.op = "MKLIST" THEN
           LET p == PopArgs(stack, i.n, prog, env, count, log, <<>>) IN
           IF p.k = "hard" THEN p
           ELSE LET elems == [k \in 1..i.n |-> p.args[i.n + 1 - k]]          \* popped last to first
                    bad == \E k \in 1..i.n : IsErrV(elems[k]) \/ IsUnk(elems[k]) \/ elems[k].t \in {"code"}
                IN Nx(pc + 1, Append(p.stack, IF bad THEN Unk ELSE VList(elems)), p.log)
      ELSE IF i.op = "MKDICT" THEN
           LET p == PopArgs(stack, 2 * i.n, prog, env, count, log, <<>>) IN
           IF p.k = "hard" THEN p
           ELSE \* popped: key_n, value_n, key_(n-1), ... ; the first occurrence of a key while popping is the last entry in the source
                IF \E k \in 1..i.n : ~IsUnk(p.args[2 * k - 1]) /\ p.args[2 * k - 1].t # "str"
                THEN \* the first offending key in source order (popped last) decides: its own failure, or "not a string"
                     LET kk == CHOOSE k \in 1..i.n : (~IsUnk(p.args[2 * k - 1]) /\ p.args[2 * k - 1].t # "str")
                                                     /\ \A j \in (k + 1)..i.n : IsUnk(p.args[2 * j - 1]) \/ p.args[2 * j - 1].t = "str"
                     IN Nx(pc + 1, Append(p.stack, IF \E j \in 1..i.n : IsUnk(p.args[2 * j - 1]) THEN Unk
                                                   ELSE IF IsErrV(p.args[2 * kk - 1]) THEN p.args[2 * kk - 1] ELSE ErrV("other")), p.log)
                ELSE LET bad == \E k \in 1..(2 * i.n) : IsErrV(p.args[k]) \/ IsUnk(p.args[k])
                         pairsSrc == [k \in 1..i.n |-> <<p.args[2 * (i.n + 1 - k) - 1], p.args[2 * (i.n + 1 - k)]>>]
                     IN Nx(pc + 1, Append(p.stack, IF bad THEN Unk ELSE OfOutcome(MkMap(pairsSrc))), p.log)
      ELSE IF i.op = "ACCESS" THEN
           (IF n < 2 THEN Hard("other", log)
            ELSE LET name == stack[n] IN
                 LET r == Resolve(stack[n - 1], prog, env, count, log) IN
                      IF r.k = "hard" THEN r
                      ELSE IF name.t # "ident" THEN Nx(pc + 1, Append(Pop2(stack), ErrV("other")), r.log)
                      ELSE LET obj == r.v
                               callable == name.n \in FuncNames(env) \cup MacrosOf(env)
                               res == IF IsUnk(obj) THEN Unk
                                      ELSE IF IsErrV(obj) THEN obj
                                      ELSE IF obj.t = "map" /\ "fc" \in DOMAIN name /\ MapHas(obj.kv, name.fc) THEN MapGet(obj.kv, name.fc)
                                      ELSE IF callable THEN [t |-> "bound", f |-> name.n, recv |-> obj]
                                      ELSE ErrV("absent")
                           IN Nx(pc + 1, Append(Pop2(stack), res), r.log))
      ELSE IF i.op = "CALL" THEN
           LET callee == stack[n]
               p == PopArgs(Pop1(stack), i.n, prog, env, count, log, <<>>)
           IN IF p.k = "hard" THEN p
              ELSE LET fname == IF callee.t = "bound" THEN callee.f ELSE IF callee.t = "ident" THEN callee.n ELSE ""
                       recv == IF callee.t = "bound" THEN callee.recv ELSE VNull
                   IN IF callee.t = "err" THEN Nx(pc + 1, Append(p.stack, callee), p.log)
                      ELSE IF fname = "" THEN Nx(pc + 1, Append(p.stack, IF IsUnk(callee) THEN Unk ELSE ErrV("other")), p.log)
                      ELSE IF fname \in FuncNames(env) THEN
                           LET ra == ResolveArgs(p.args, 1, prog, env, count, p.log, <<>>) IN
                           IF ra.k = "hard" THEN ra
                           ELSE IF ra.k = "fail" THEN Nx(pc + 1, Append(p.stack, ra.v), ra.log)
                           ELSE LET c == CallFunction(fname, callee.t = "bound", recv, ra.vals, env, ra.log) IN Nx(pc + 1, Append(p.stack, c.v), c.log)
                      ELSE IF fname \in MacrosOf(env) THEN
                           LET c == CallMacro(fname, recv, p.args, prog, env, count, p.log) IN
                           IF c.k = "hard" THEN c
                           ELSE IF IsErrV(c.v) /\ "d" \in DOMAIN c.v THEN [k |-> "hard", v |-> [c |-> "other", depth |-> TRUE], log |-> c.log]   \* call_macro: depth aborts
                           ELSE Nx(pc + 1, Append(p.stack, c.v), c.log)
                      ELSE IF fname \in TypeNames /\ callee.t = "ident" THEN
                           LET ra == ResolveArgs(p.args, 1, prog, env, count, p.log, <<>>) IN
                           IF ra.k = "hard" THEN ra
                           ELSE IF ra.k = "fail" THEN Nx(pc + 1, Append(p.stack, ra.v), ra.log)
                           ELSE LET c == CallFunction(fname, FALSE, VNull, ra.vals, env, ra.log) IN Nx(pc + 1, Append(p.stack, c.v), c.log)
                      ELSE Nx(pc + 1, Append(p.stack, ErrV("other")), Append(p.log, "#unres"))     \* not callable: noted too
      ELSE IF i.op = "FMT" THEN
           LET p == PopArgs(stack, i.n, prog, env, count, log, <<>>) IN
           IF p.k = "hard" THEN p
           ELSE IF \E k \in 1..i.n : IsUnk(p.args[k]) THEN Nx(pc + 1, Append(p.stack, Unk), p.log)
           ELSE IF \E k \in 1..i.n : p.args[k].t \notin {"str", "err"} THEN Hard("other", p.log)
           ELSE IF \E k \in 1..i.n : IsErrV(p.args[k])                       \* the first failed segment in source order (popped last) is the result
                THEN Nx(pc + 1, Append(p.stack, p.args[CHOOSE k \in 1..i.n : IsErrV(p.args[k]) /\ \A j \in (k + 1)..i.n : ~IsErrV(p.args[j])]), p.log)
           ELSE LET RECURSIVE Cat(_)
                    Cat(k) == IF k = 0 THEN <<>> ELSE p.args[k].s \o Cat(k - 1)
                IN Nx(pc + 1, Append(p.stack, VStr(Cat(i.n))), p.log)
      ELSE Hard("other", log)


Exec(prog, code, pc, stack, env, count, log) ==
    IF pc >= Len(code) THEN Finish(stack, prog, env, count, log)
    ELSE LET s == Step1(prog, code, pc, stack, env, count, log) IN
         IF s.k = "next" THEN Exec(prog, code, s.pc, s.stack, env, count, s.log) ELSE s

(* API-level observation of executing a program: an observed-outcome record and the call log *)
RECURSIVE CallsOnly(_)
CallsOnly(log) == IF log = <<>> THEN <<>> ELSE IF Head(log) = "#unres" THEN CallsOnly(Tail(log)) ELSE <<Head(log)>> \o CallsOnly(Tail(log))
SawUnresolved(log) == \E i \in 1..Len(log) : log[i] = "#unres"
RunProgram(prog, env) ==
    LET r0 == RunBlock(prog, prog[1], env, 0)
        r == [r0 EXCEPT !.log = CallsOnly(r0.log)] IN
    IF r.k = "hard" THEN [out |-> [o |-> "err", c |-> r.v.c], log |-> r.log, unk |-> FALSE]
    ELSE IF IsUnk(r.v) THEN [out |-> [o |-> "unknown"], log |-> r.log, unk |-> TRUE]
    ELSE [out |-> [o |-> "ok", v |-> r.v], log |-> r.log, unk |-> FALSE]
=============================================================================
