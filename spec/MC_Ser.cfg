INIT Init
NEXT Next
INVARIANT RoundTrip
INVARIANT PinnedBreaksErr
CHECK_DEADLOCK FALSE
