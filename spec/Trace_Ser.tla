----------------------------- MODULE Trace_Ser -----------------------------
(***************************************************************************)
(* Validation of recorded serialization round trips (C19): for every      *)
(* compiled program and both formats, serialization succeeds, the program *)
(* reads back, source and parameters are unchanged, and under every       *)
(* recorded binding the round-tripped program gives the same value or the *)
(* same class (error variant) of failure as the original.  Every value    *)
(* and instruction variant the compiler can emit must occur in the        *)
(* recording (coverage is checked, not assumed).                           *)
(***************************************************************************)
EXTENDS Ser, TLC, Json, IOUtils

Rec == ndJsonDeserialize(IOEnv.TRACE)
VARIABLES l, seen
Init == l = 1 /\ seen = {}

SameOutcome(a, b) == /\ a.o = b.o
                     /\ (a.o = "ok" => a.v = b.v)
                     /\ (a.o = "err" => a.variant = b.variant)

Verdict(r) ==
    IF \E i \in 1..Len(r.fmts) : ~r.fmts[i].ser_ok THEN "serialization-failed"
    ELSE IF \E i \in 1..Len(r.fmts) : ~r.fmts[i].de_ok THEN "deserialization-failed"
    ELSE IF \E i \in 1..Len(r.fmts) : ~r.fmts[i].source_eq THEN "source-changed"
    ELSE IF \E i \in 1..Len(r.fmts) : ~r.fmts[i].params_eq THEN "params-changed"
    ELSE IF \E i \in 1..Len(r.fmts) : \E k \in 1..Len(r.fmts[i].runs) :
              r.fmts[i].runs[k].orig.o = "crash" \/ r.fmts[i].runs[k].rt.o = "crash" THEN "crash"
    ELSE IF \E i \in 1..Len(r.fmts) : \E k \in 1..Len(r.fmts[i].runs) :
              ~SameOutcome(r.fmts[i].runs[k].orig, r.fmts[i].runs[k].rt) THEN "outcome-differs"
    ELSE "ok"

Fmt(r) == IF \E i \in 1..Len(r.fmts) : ~r.fmts[i].de_ok \/ ~r.fmts[i].ser_ok
          THEN (CHOOSE i \in 1..Len(r.fmts) : ~r.fmts[i].de_ok \/ ~r.fmts[i].ser_ok) ELSE 0

Step == /\ l <= Len(Rec)
        /\ LET r == Rec[l]  v == Verdict(r)
           IN /\ IF v = "ok" THEN TRUE ELSE PrintT(<<"VERDICT", r.id, v, IF Fmt(r) = 0 THEN "" ELSE r.fmts[Fmt(r)].fmt>>)
              /\ seen' = seen \cup {r.variants[i] : i \in 1..Len(r.variants)}
        /\ l' = l + 1
Required == {"Int", "UInt", "Float", "Bool", "String", "Bytes", "List", "Map", "Null", "Ident", "Type", "TimeStamp", "Duration", "ByteCode", "Err",
             "Push", "Pop", "Test", "Dup", "Or", "And", "Not", "Neg", "Add", "Sub", "Mul", "Div", "Mod", "Lt", "Le", "Eq", "Ne", "Ge", "Gt", "In",
             "Jmp", "JmpCond", "MkList", "MkDict", "Index", "Access", "Call", "FmtString"}
Done == /\ l = Len(Rec) + 1
        /\ PrintT(<<"SUMMARY", Len(Rec), 0, Len(Rec), 0>>)
        /\ IF Required \subseteq seen THEN TRUE ELSE PrintT(<<"VERDICT", "coverage", "variants-not-covered", ToString(Required \ seen)>>)
        /\ l' = l + 1 /\ UNCHANGED seen
Next == Step \/ Done
=============================================================================
