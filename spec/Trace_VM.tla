----------------------------- MODULE Trace_VM -----------------------------
(***************************************************************************)
(* Binding of VM.tla to the interpreter and to the compiler's real output *)
(* (C05 C07 C08 C10 C12).  A record is one case run in form "vm": the     *)
(* abstract inputs, the bytecode the real compiler produced for every     *)
(* program, and the events of the cfg(rscel_verif) tracer: each           *)
(* activation of run_raw (its code, depth count, and the bindings of the  *)
(* case's names in it) and every instruction about to execute with the    *)
(* operand stack.                                                          *)
(*                                                                         *)
(* 1. Trace invariants, which the properties state and the trace shows    *)
(*    (VERDICT lines): the program counter stays inside the block and     *)
(*    strictly increases within an activation, every instruction finds    *)
(*    its operands on the stack (C10); the activations started from one    *)
(*    activation - loop iterations, arguments - share one depth count:    *)
(*    iterating does not consume the depth budget (C12).                  *)
(* 2. Step conformance (DRIFT lines, diagnostic): the next recorded       *)
(*    <<pc, stack>> of an activation is Step1 of VM.tla.  It keeps the    *)
(*    model honest; a drift is not a violation of any property.  So are  *)
(*    the facts about how this implementation counts depth (child =       *)
(*    parent + 1, nothing runs beyond 32).                                *)
(* 3. Candidates (CAND lines): the REAL bytecode is run on VM.tla under   *)
(*    every valuation of up to three variables over a pool of truthy,     *)
(*    falsy, non-boolean and unbound values and compared with Eval of the *)
(*    tree.  A disagreement is a valuation worth executing: the driver    *)
(*    replays it on the real interpreter and Trace_Eval judges it.        *)
(***************************************************************************)
EXTENDS Compile, AbsVM, TLC, Json, IOUtils

Rec == ndJsonDeserialize(IOEnv.TRACE)
Fld(r, f) == IF f \in DOMAIN r THEN r[f] ELSE <<>>
VmObs(r) == LET S == {i \in 1..Len(r.obs) : r.obs[i].form = "vm"} IN IF S = {} THEN <<>> ELSE r.obs[CHOOSE i \in S : TRUE]

VARIABLES l, nbad, nsteps, ndrift, ncand, nvals, ncomp
vars == <<l, nbad, nsteps, ndrift, ncand, nvals, ncomp>>

----------------------------------------------------------------------------
(* events *)
IsEnter(e) == e.e = "enter"
IsStep(e) == e.e = "step"
EnterOf(ev, f) == ev[CHOOSE i \in 1..Len(ev) : IsEnter(ev[i]) /\ ev[i].f = f]
NextOfFrame(ev, i) == LET S == {j \in (i + 1)..Len(ev) : ~IsEnter(ev[j]) /\ ev[j].f = ev[i].f} IN
                      IF S = {} THEN 0 ELSE CHOOSE j \in S : \A k \in S : j <= k

(* 1. invariants of the trace *)
StepBad(ev, i) ==
    LET e == ev[i]  en == EnterOf(ev, e.f)  code == en.code
        nx == NextOfFrame(ev, i)
    IN IF e.pc >= Len(code) THEN "pc-outside-block"
       ELSE IF Len(e.st) < Pops(code[e.pc + 1]) THEN "pop-from-empty-stack"
       ELSE IF nx # 0 /\ IsStep(ev[nx]) /\ ev[nx].pc <= e.pc THEN "pc-not-increasing"
       ELSE "ok"
EnterBad(ev, i) ==
    LET e == ev[i] IN
    IF e.detached THEN "ok"                                   \* a context-free evaluation (a macro reading the name of its loop variable)
    ELSE IF \E j \in 1..(i - 1) : IsEnter(ev[j]) /\ ev[j].p = e.p /\ ~ev[j].detached /\ ev[j].g # e.g THEN "sibling-activations-differ-in-depth"
    ELSE "ok"
(* how this implementation counts (diagnostic only: the properties fix neither the limit nor what exactly is counted) *)
EnterDrift(ev, i) ==
    LET e == ev[i] IN
    ~e.detached /\ ( (e.p # 0 /\ ~EnterOf(ev, e.p).detached /\ e.g # EnterOf(ev, e.p).g + 1)
                    \/ (e.p = 0 /\ e.g # 1)
                    \/ (e.g > DepthLimit /\ \E j \in 1..Len(ev) : IsStep(ev[j]) /\ ev[j].f = e.f) )

(* 2. step conformance *)
SameItem(a, b) == IF a.t = "bound" /\ b.t = "bound" THEN a.recv = b.recv
                  ELSE IF a.t = "unknown" \/ b.t = "unknown" THEN TRUE
                  ELSE IF a.t = "ident" /\ b.t = "ident" THEN a.n = b.n
                  ELSE IF a.t = "err" /\ b.t = "err" THEN a.c = b.c
                  ELSE a = b
SameStack(a, b) == Len(a) = Len(b) /\ \A k \in 1..Len(a) : SameItem(a[k], b[k])
(* the tracer records the receiver of a bound call, not the callee's name: it is the operand of the PUSH before the ACCESS that made it *)
NameBound(code, pc, st) ==
    [k \in 1..Len(st) |->
        IF st[k].t # "bound" THEN st[k]
        ELSE [t |-> "bound", recv |-> st[k].recv,
              f |-> IF k = Len(st) /\ pc >= 2 /\ code[pc].op = "ACCESS" /\ code[pc - 1].op = "PUSH" /\ code[pc - 1].v.t = "ident" THEN code[pc - 1].v.n ELSE "?"]]
EnvOf(r, vm, en) == [vars |-> en.vars, progs |-> Fld(vm, "pblocks"), funcs |-> Fld(r, "funcs")]
Drift(r, vm, ev, i) ==
    LET e == ev[i]  en == EnterOf(ev, e.f)  code == en.code
        nx == NextOfFrame(ev, i)
        s == Step1(<<>>, code, e.pc, NameBound(code, e.pc, e.st), EnvOf(r, vm, en), en.g, <<>>)
    IN IF nx = 0 THEN FALSE
       ELSE IF s.k = "ok" THEN FALSE                              \* undetermined in the model
       ELSE IF IsStep(ev[nx]) THEN ~(s.k = "next" /\ s.pc = ev[nx].pc /\ SameStack(s.stack, ev[nx].st))
       ELSE ~(s.k = "hard" \/ s.pc >= Len(code))                  \* the activation ended here

(* 2b. compiler conformance (diagnostic): where nothing can fold - a tree without literals - the real compiler's *)
(* output is Compile(tree) of Compile.tla, the schemes MC_Lazy checks against the reference evaluator               *)
RECURSIVE HasLit(_), AnyLit(_, _), SameCode(_, _)
AnyLit(ts, i) == i <= Len(ts) /\ (HasLit(ts[i]) \/ AnyLit(ts, i + 1))
HasLit(t) ==
    CASE t.k = "lit" -> TRUE
      [] t.k = "id" -> FALSE
      [] t.k \in {"paren", "un", "sel"} -> HasLit(t.e)
      [] t.k = "bin" -> HasLit(t.l) \/ HasLit(t.r)
      [] t.k = "tern" -> HasLit(t.c) \/ HasLit(t.a) \/ HasLit(t.b)
      [] t.k = "list" -> t.es = <<>> \/ AnyLit(t.es, 1)
      [] t.k = "idx" -> HasLit(t.e) \/ HasLit(t.i)
      [] t.k = "call" -> (t.args = <<>> /\ t.f \in BuiltinNames \cup TypeNames \cup {"coalesce"}) \/ AnyLit(t.args, 1)
      [] t.k = "mcall" -> HasLit(t.r) \/ AnyLit(t.args, 1)
      [] OTHER -> TRUE                                   \* maps, f-strings, match: not compared
SameOperand(a, b) == IF a.t = "unknown" \/ b.t = "unknown" THEN TRUE         \* a constant the model cannot compute
                     ELSE IF a.t = "ident" /\ b.t = "ident" THEN a.n = b.n
                     ELSE IF a.t = "err" /\ b.t = "err" THEN a.c = b.c
                     ELSE IF a.t = "code" /\ b.t = "code" THEN SameCode(a.c, b.c)
                     ELSE a = b
SameCode(x, y) == Len(x) = Len(y) /\ \A k \in 1..Len(x) :
                     /\ x[k].op = y[k].op
                     /\ (x[k].op = "PUSH" => SameOperand(x[k].v, y[k].v))
                     /\ (x[k].op \in {"JMP", "JMPC"} => x[k].d = y[k].d)
                     /\ (x[k].op = "JMPC" => x[k].when = y[k].when)
                     /\ (x[k].op \in {"CALL", "MKLIST", "MKDICT", "FMT"} => x[k].n = y[k].n)
RECURSIVE HasUnk(_)
HasUnk(code) == \E k \in 1..Len(code) : code[k].op = "PUSH" /\ (code[k].v.t = "unknown" \/ (code[k].v.t = "code" /\ HasUnk(code[k].v.c)))
(* a constant the model cannot compute leaves open whether the real compiler folded at all: such programs are not compared *)
CanCompare(r) == ~HasLit(r.tree) \/ ~HasUnk(BC(F(r.tree)))
CompileDrift(r, vm) == IF HasLit(r.tree) THEN CanCompare(r) /\ ~SameCode(BC(F(r.tree)), vm.blocks[1])      \* the folding compiler
                       ELSE ~SameCode(C(r.tree), vm.blocks[1])

(* 3. all valuations of the real bytecode *)
Pool == <<VTrue, VFalse, VInt(BFromInt(1)), VInt(BFromInt(0)), VStr(<<>>), VNull, [t |-> "unbound"]>>
VarNames(r) == LET D == DOMAIN Fld(r, "bind")
                   k == IF Cardinality(D) < 3 THEN Cardinality(D) ELSE 3
               IN CHOOSE S \in SUBSET D : Cardinality(S) = k
VarsUnder(r, names, val) ==
    LET keep == {n \in DOMAIN Fld(r, "bind") : ~(n \in names /\ Pool[val[n]].t = "unbound")}
    IN [n \in keep |-> IF n \in names THEN Pool[val[n]] ELSE r.bind[n]]
HasDepth(log) == \E i \in 1..Len(log) : log[i] = "#depth"
Disagree(r, vm, vs) ==
    LET x == RunProgram(vm.blocks, [vars |-> vs, progs |-> Fld(vm, "pblocks"), funcs |-> Fld(r, "funcs")])
        e == Eval(r.tree, Env0(vs, Fld(r, "progs"), Fld(r, "funcs")))
    IN ~( \/ x.unk \/ HasDepth(x.log) \/ HasDepth(e.log)
          \/ (Matches(x.out, e.o) /\ (e.lk => x.log = e.log)) )
Candidates(r, vm) ==
    LET names == VarNames(r) IN
    {val \in [names -> 1..Len(Pool)] : Disagree(r, vm, VarsUnder(r, names, val))}
(* ... and under every assignment of outcomes to up to three of its recording functions (truthy, falsy, not boolean, null,  *)
(* failing either way): which operands run, and in which order, shows in the call log                                      *)
FPool == <<Ok(VTrue), Ok(VFalse), Ok(VInt(BFromInt(1))), Ok(VNull), Err("other"), Err("absent")>>
FuncNames3(r) == LET D == DOMAIN Fld(r, "funcs")
                     k == IF Cardinality(D) < 3 THEN Cardinality(D) ELSE 3
                 IN CHOOSE S \in SUBSET D : Cardinality(S) = k
FuncsUnder(r, names, val) == [n \in DOMAIN Fld(r, "funcs") |-> IF n \in names THEN FPool[val[n]] ELSE r.funcs[n]]
DisagreeF(r, vm, fs) ==
    LET vs == Fld(r, "bind")
        x == RunProgram(vm.blocks, [vars |-> vs, progs |-> Fld(vm, "pblocks"), funcs |-> fs])
        e == Eval(r.tree, Env0(vs, Fld(r, "progs"), fs))
    IN ~( \/ x.unk \/ HasDepth(x.log) \/ HasDepth(e.log)
          \/ (Matches(x.out, e.o) /\ (e.lk => x.log = e.log)) )
CandidatesF(r, vm) ==
    LET names == FuncNames3(r) IN
    IF names = {} THEN {} ELSE {val \in [names -> 1..Len(FPool)] : DisagreeF(r, vm, FuncsUnder(r, names, val))}

----------------------------------------------------------------------------
Init == l = 1 /\ nbad = 0 /\ nsteps = 0 /\ ndrift = 0 /\ ncand = 0 /\ nvals = 0 /\ ncomp = 0
Step == /\ l <= Len(Rec)
        /\ LET r == Rec[l]
               ob == VmObs(r)
               has == ob # <<>> /\ "vm" \in DOMAIN ob /\ "events" \in DOMAIN ob.vm
               vm == IF has THEN ob.vm ELSE <<>>
               ev == IF has THEN vm.events ELSE <<>>
               whole == has /\ ~vm.truncated
               steps == {i \in 1..Len(ev) : IsStep(ev[i])}
               badS == {i \in steps : StepBad(ev, i) # "ok"}
               badE == {i \in 1..Len(ev) : IsEnter(ev[i]) /\ EnterBad(ev, i) # "ok"}
               drift == IF whole THEN {i \in steps : Drift(r, vm, ev, i)} ELSE {}
               driftE == {i \in 1..Len(ev) : IsEnter(ev[i]) /\ EnterDrift(ev, i)}
               names == IF has THEN VarNames(r) ELSE {}
               cands == IF has /\ "blocks" \in DOMAIN vm THEN Candidates(r, vm) ELSE {}
               fnames == IF has THEN FuncNames3(r) ELSE {}
               candsF == IF has /\ "blocks" \in DOMAIN vm THEN CandidatesF(r, vm) ELSE {}
               cdrift == has /\ "blocks" \in DOMAIN vm /\ CompileDrift(r, vm)
           IN /\ nbad' = nbad + Cardinality(badS) + Cardinality(badE)
              /\ nsteps' = nsteps + Cardinality(steps)
              /\ ndrift' = ndrift + Cardinality(drift) + Cardinality(driftE) + (IF cdrift THEN 1 ELSE 0)
              /\ ncomp' = ncomp + (IF has /\ "blocks" \in DOMAIN vm /\ CanCompare(r) THEN 1 ELSE 0)
              /\ (cdrift => PrintT(<<"DRIFT", r.id, ToJson([instr |-> "compile", model |-> BC(F(r.tree))])>>))
              /\ ncand' = ncand + Cardinality(cands) + Cardinality(candsF)
              /\ nvals' = nvals + (IF has THEN Len(Pool) ^ Cardinality(names) + (IF fnames = {} THEN 0 ELSE Len(FPool) ^ Cardinality(fnames)) ELSE 0)
              /\ \A i \in badS : PrintT(<<"VERDICT", r.id, StepBad(ev, i), ToJson([frame |-> ev[i].f, pc |-> ev[i].pc, depth |-> EnterOf(ev, ev[i].f).g])>>)
              /\ \A i \in badE : PrintT(<<"VERDICT", r.id, EnterBad(ev, i), ToJson([frame |-> ev[i].f, parent |-> ev[i].p, depth |-> ev[i].g])>>)
              /\ \A i \in drift : PrintT(<<"DRIFT", r.id, ToJson([frame |-> ev[i].f, pc |-> ev[i].pc, instr |-> EnterOf(ev, ev[i].f).code[ev[i].pc + 1].op])>>)
              /\ \A i \in driftE : PrintT(<<"DRIFT", r.id, ToJson([frame |-> ev[i].f, parent |-> ev[i].p, depth |-> ev[i].g, instr |-> "enter"])>>)
              /\ \A c \in cands : PrintT(<<"CAND", r.id, ToJson([n \in names |-> Pool[c[n]]])>>)
              /\ \A c \in candsF : PrintT(<<"CANDF", r.id, ToJson([n \in fnames |-> FPool[c[n]]])>>)
        /\ l' = l + 1
Done == /\ l = Len(Rec) + 1
        /\ PrintT(<<"SUMMARY", Len(Rec), nbad, nsteps, ndrift, ncand, nvals, ncomp>>)
        /\ l' = l + 1
        /\ UNCHANGED <<nbad, nsteps, ndrift, ncand, nvals, ncomp>>
Next == Step \/ Done
Spec == Init /\ [][Next]_vars
Accepted == TLCGet("stats").diameter = Len(Rec) + 2
=============================================================================
