------------------------------ MODULE MC_Ser ------------------------------
EXTENDS Ser, TLC
VARIABLE i
Init == i \in 1..Len(CelValueVariants)
Next == UNCHANGED i
RoundTrip == ~CelValueVariants[i].skip => SerIndex(CelValueVariants, i) = DeIndex(CelValueVariants, i)
(* the pinned table is a counterexample: exactly Err does not round-trip *)
PinnedBreaksErr == BrokenVariants(CelValueVariantsPinned) = {"Err"}
=============================================================================
