------------------------------- MODULE AbsVM -------------------------------
(***************************************************************************)
(* Abstract interpretation of rscel bytecode: operand-stack heights on    *)
(* every path of a block (C10).  A block is well formed when every jump   *)
(* lands inside it or exactly at its end, no instruction pops more than   *)
(* the stack holds, paths that meet agree on the height, all jumps go     *)
(* forward (loop-free: at most one step per instruction) and the end is   *)
(* reached with exactly one value.                                         *)
(*                                                                         *)
(* Two formulations of the same thing:                                     *)
(*  - WellFormedBlock: one forward pass (sound because jumps are forward), *)
(*    used to give a verdict per program;                                  *)
(*  - the state machine Init/Next over (program, block, pc, height), which *)
(*    TLC explores along *both* successors of every conditional jump, with *)
(*    the invariants NoUnderflow, InRange, ForwardOnly, OneValueAtEnd.     *)
(***************************************************************************)
EXTENDS Integers, Sequences, FiniteSets

Pops(i) == CASE i.op \in {"PUSH", "JMP"} -> 0
             [] i.op \in {"POP", "TEST", "NOT", "NEG", "DUP", "JMPC"} -> 1
             [] i.op \in {"MKLIST", "FMT"} -> i.n
             [] i.op = "MKDICT" -> 2 * i.n
             [] i.op = "CALL" -> i.n + 1
             [] OTHER -> 2          \* binary operators, OR AND IN INDEX ACCESS
Pushes(i) == CASE i.op \in {"POP", "JMP", "JMPC"} -> 0
               [] i.op = "DUP" -> 2
               [] OTHER -> 1
Succs(i, pc) == CASE i.op = "JMP" -> {pc + 1 + i.d}
                  [] i.op = "JMPC" -> {pc + 1, pc + 1 + i.d}
                  [] OTHER -> {pc + 1}

KnownOps == {"PUSH", "POP", "TEST", "DUP", "OR", "AND", "NOT", "NEG", "ADD", "SUB", "MUL", "DIV", "MOD",
             "LT", "LE", "EQ", "NE", "GE", "GT", "IN", "JMP", "JMPC", "MKLIST", "MKDICT", "INDEX", "ACCESS", "CALL", "FMT"}

RECURSIVE FlowFrom(_, _, _)
FlowFrom(code, pc, H) ==
    LET n == Len(code) IN
    IF pc = n THEN (IF H[n] = 1 THEN "ok" ELSE IF H[n] = -1 THEN "end-unreachable" ELSE "end-height")
    ELSE IF H[pc] = -1 THEN FlowFrom(code, pc + 1, H)
    ELSE LET i == code[pc + 1]  h == H[pc] IN
         IF ~(i.op \in KnownOps) THEN "unknown-op"
         ELSE IF h < Pops(i) THEN "underflow"
         ELSE LET h2 == h - Pops(i) + Pushes(i)
                  ss == Succs(i, pc)
              IN IF \E s \in ss : s < 0 \/ s > n THEN "jump-range"
                 ELSE IF i.op \in {"JMP", "JMPC"} /\ i.d < 0 THEN "backward-jump"
                 ELSE IF \E s \in ss : H[s] # -1 /\ H[s] # h2 THEN "height-mismatch"
                 ELSE FlowFrom(code, pc + 1, [p \in 0..n |-> IF p \in ss THEN h2 ELSE H[p]])
WellFormedBlock(code) == FlowFrom(code, 0, [p \in 0..Len(code) |-> IF p = 0 THEN 0 ELSE -1])

(* every code operand names a block of the same program *)
OperandsOk(blocks) == \A b \in 1..Len(blocks) : \A k \in 1..Len(blocks[b]) :
    LET i == blocks[b][k] IN
    (i.op = "PUSH" /\ "t" \in DOMAIN i.v /\ i.v.t = "code") => i.v.b \in 1..Len(blocks)

(* first defect of a program, or "ok" *)
RECURSIVE FirstBad(_, _)
FirstBad(blocks, b) == IF b > Len(blocks) THEN "ok"
                       ELSE LET w == WellFormedBlock(blocks[b]) IN IF w = "ok" THEN FirstBad(blocks, b + 1) ELSE w
WellFormed(blocks) == IF ~OperandsOk(blocks) THEN "bad-code-operand" ELSE FirstBad(blocks, 1)

(* calls of the clock in a program: PUSH ident now|timestamp ; CALL 0 *)
ClockCallsIn(code) == Cardinality({k \in 1..(Len(code) - 1) :
    /\ code[k].op = "PUSH" /\ "t" \in DOMAIN code[k].v /\ code[k].v.t = "ident" /\ code[k].v.n \in {"now", "timestamp"}
    /\ code[k + 1].op = "CALL" /\ code[k + 1].n = 0})
RECURSIVE SumClock(_, _)
SumClock(blocks, b) == IF b > Len(blocks) THEN 0 ELSE ClockCallsIn(blocks[b]) + SumClock(blocks, b + 1)
ClockCalls(blocks) == SumClock(blocks, 1)
=============================================================================
