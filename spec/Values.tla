------------------------------ MODULE Values ------------------------------
(***************************************************************************)
(* The value algebra of the reference semantics: what the operators of    *)
(* CEL compute on values (C03 C04 C05 C06), width-generic in W.           *)
(*                                                                         *)
(* Results are *abstract outcomes* (DESIGN 3.6):                           *)
(*    Ok(v)      exactly this value                                        *)
(*    Err(c)     a failure of class c: "absent" | "other" | "either"       *)
(*    Opt(v)     this value, or a failure (a statement can be read both    *)
(*               ways)                                                     *)
(*    AnyOut        anything but a crash (no property gives a meaning)        *)
(***************************************************************************)
EXTENDS Dbl, FiniteSets

CONSTANT W          \* width of int / uint in bits

IntMin  == BNeg(BPow2(W - 1))
IntMax  == BSub(BPow2(W - 1), BOne)
UIntMax == BSub(BPow2(W), BOne)

(* time: nanoseconds.  Years 1..9999 must be representable; outside the implementation's     *)
(* own range a result must be an error; in between either (DESIGN 3.6).                      *)
NS        == MFromDigits(<<1,0,0,0,0,0,0,0,0,0>>, 10)
SecToNs(b) == BMul(b, [s |-> 1, m |-> NS])
TsSureMin == SecToNs(BNeg([s |-> 1, m |-> MFromDigits(<<6,2,1,3,5,5,9,6,8,0,0>>, 10)]))      \* 0001-01-01T00:00:00Z
TsSureMax == BAdd(SecToNs([s |-> 1, m |-> MFromDigits(<<2,5,3,4,0,2,3,0,0,7,9,9>>, 10)]),     \* 9999-12-31T23:59:59.999999999Z
                  [s |-> 1, m |-> MFromDigits(<<9,9,9,9,9,9,9,9,9>>, 10)])
TsImplMin == SecToNs(BNeg([s |-> 1, m |-> MFromDigits(<<8,3,3,4,6,0,1,2,2,8,8,0,0>>, 10)]))  \* -262143-01-01T00:00:00Z
TsImplMax == BAdd(SecToNs([s |-> 1, m |-> MFromDigits(<<8,2,1,0,2,6,6,8,7,6,7,9,9>>, 10)]),   \* +262142-12-31T23:59:59.999999999Z
                  [s |-> 1, m |-> MFromDigits(<<9,9,9,9,9,9,9,9,9>>, 10)])
DurImplMax == BMul(BSub(BPow2(63), BOne), [s |-> 1, m |-> MFromDigits(<<1,0,0,0,0,0,0>>, 10)]) \* i64::MAX milliseconds
DurSureMax == SecToNs([s |-> 1, m |-> MFromDigits(<<3,1,5,5,7,6,0,0,0,0,0,0>>, 10)])           \* 10 000 years

----------------------------------------------------------------------------
VInt(n)   == [t |-> "int", n |-> n]
VUint(n)  == [t |-> "uint", n |-> n]
VDbl(d)   == [t |-> "dbl", neg |-> d.neg, e |-> d.e, m |-> d.m]
DOf(v)    == [neg |-> v.neg, e |-> v.e, m |-> v.m]
VBool(b)  == [t |-> "bool", b |-> b]
VStr(s)   == [t |-> "str", s |-> s]
VBytes(s) == [t |-> "bytes", s |-> s]
VList(s)  == [t |-> "list", s |-> s]
VMap(kv)  == [t |-> "map", kv |-> kv]
VNull     == [t |-> "null"]
VType(n)  == [t |-> "type", name |-> n]
VTs(ns)   == [t |-> "ts", ns |-> ns]
VDur(ns)  == [t |-> "dur", ns |-> ns]
VTrue  == VBool(TRUE)
VFalse == VBool(FALSE)

Ok(v)  == [o |-> "ok", v |-> v]
Err(c) == [o |-> "err", c |-> c]
Opt(v) == [o |-> "opt", v |-> v]
AnyOut    == [o |-> "any"]
IsOk(x)  == x.o = "ok"
IsErr(x) == x.o = "err"
MergeErr(c1, c2) == IF c1 = c2 THEN c1 ELSE "either"

(* weaken a definite outcome to "that, or a failure" *)
Weaken(x) == IF x.o = "ok" THEN Opt(x.v) ELSE IF x.o = "err" THEN Err("either") ELSE x

(* strict binary operation on outcomes; f gives an outcome for two values *)
Strict2(f(_, _), a, b) ==
    IF a.o = "err" THEN (IF b.o = "ok" THEN a ELSE IF b.o = "err" THEN Err(MergeErr(a.c, b.c)) ELSE Err("either"))
    ELSE IF b.o = "err" THEN (IF a.o = "ok" THEN b ELSE Err("either"))
    ELSE IF a.o = "any" \/ b.o = "any" THEN AnyOut
    ELSE IF a.o = "ok" /\ b.o = "ok" THEN f(a.v, b.v)
    ELSE Weaken(f(a.v, b.v))
Strict1(f(_), a) ==
    IF a.o = "err" \/ a.o = "any" THEN a
    ELSE IF a.o = "ok" THEN f(a.v) ELSE Weaken(f(a.v))

----------------------------------------------------------------------------
(* truthiness (C05) *)
Truthy(v) ==
    CASE v.t \in {"int", "uint"} -> v.n.s # 0
      [] v.t = "dbl"   -> ~DIsZero(DOf(v))
      [] v.t = "bool"  -> v.b
      [] v.t \in {"str", "bytes", "list"} -> Len(v.s) > 0
      [] v.t = "map"   -> Len(v.kv) > 0
      [] v.t = "null"  -> FALSE
      [] v.t \in {"type", "ts", "dur"} -> TRUE
      [] OTHER -> FALSE

TypeOf(v) ==
    CASE v.t = "dbl" -> "float" [] v.t = "str" -> "string" [] v.t = "ts" -> "timestamp"
      [] v.t = "dur" -> "duration" [] OTHER -> v.t

----------------------------------------------------------------------------
(* arithmetic (C03) *)
IsIntLike(v) == v.t \in {"int", "uint", "bool"}
NumOf(v) == IF v.t = "bool" THEN (IF v.b THEN BOne ELSE BZero) ELSE v.n
ToDbl(v) == IF v.t = "dbl" THEN DOf(v) ELSE DFromBig(NumOf(v))

IntOp(op, x, y) ==
    CASE op = "+" -> [ok |-> TRUE, v |-> BAdd(x, y)]
      [] op = "-" -> [ok |-> TRUE, v |-> BSub(x, y)]
      [] op = "*" -> [ok |-> TRUE, v |-> BMul(x, y)]
      [] op = "/" -> IF y.s = 0 THEN [ok |-> FALSE] ELSE [ok |-> TRUE, v |-> BDivT(x, y)]
      [] op = "%" -> IF y.s = 0 THEN [ok |-> FALSE] ELSE [ok |-> TRUE, v |-> BRemT(x, y)]

InIntRange(n)  == BInRange(n, IntMin, IntMax)
InUintRange(n) == BInRange(n, BZero, UIntMax)

DblOp(op, a, b) ==
    CASE op = "+" -> Ok(VDbl(DAdd(a, b)))
      [] op = "-" -> Ok(VDbl(DSub(a, b)))
      [] op = "*" -> Ok(VDbl(DMul(a, b)))
      [] op = "/" -> Ok(VDbl(DDiv(a, b)))
      [] OTHER    -> Err("other")

TsResult(ns) == IF BInRange(ns, TsSureMin, TsSureMax) THEN Ok(VTs(ns))
                ELSE IF BInRange(ns, TsImplMin, TsImplMax) THEN Opt(VTs(ns))
                ELSE Err("other")
DurResult(ns) == IF BCmp(BAbs(ns), DurSureMax) <= 0 THEN Ok(VDur(ns))
                 ELSE IF BCmp(BAbs(ns), DurImplMax) <= 0 THEN Opt(VDur(ns))
                 ELSE Err("other")

Arith(op, a, b) ==
    LET ta == a.t  tb == b.t IN
    IF ta = "dbl" \/ tb = "dbl"
    THEN (IF {ta, tb} \subseteq {"dbl", "int", "uint", "bool"} THEN DblOp(op, ToDbl(a), ToDbl(b)) ELSE Err("other"))
    ELSE IF IsIntLike(a) /\ IsIntLike(b)
    THEN (IF ta = "bool" /\ tb = "bool" THEN AnyOut
          ELSE LET x  == NumOf(a)   y == NumOf(b)
                   rt == IF "int" \in {ta, tb} THEN "int" ELSE "uint"
                   big == rt = "int" /\ ((ta = "uint" /\ BCmp(x, IntMax) > 0) \/ (tb = "uint" /\ BCmp(y, IntMax) > 0))
                   r  == IntOp(op, x, y)
               IN IF ~r.ok THEN Err("other")
                  ELSE IF rt = "int"
                       THEN (IF InIntRange(r.v) THEN (IF big THEN Opt(VInt(r.v)) ELSE Ok(VInt(r.v))) ELSE Err("other"))
                       ELSE (IF InUintRange(r.v) THEN Ok(VUint(r.v)) ELSE Err("other")))
    ELSE IF op = "+" /\ ta = tb /\ ta \in {"str", "bytes", "list"} THEN Ok([t |-> ta, s |-> a.s \o b.s])
    ELSE IF op = "+" /\ ta = "ts"  /\ tb = "dur" THEN TsResult(BAdd(a.ns, b.ns))
    ELSE IF op = "+" /\ ta = "dur" /\ tb = "ts"  THEN TsResult(BAdd(a.ns, b.ns))
    ELSE IF op = "+" /\ ta = "dur" /\ tb = "dur" THEN DurResult(BAdd(a.ns, b.ns))
    ELSE IF op = "-" /\ ta = "ts"  /\ tb = "dur" THEN TsResult(BSub(a.ns, b.ns))
    ELSE IF op = "-" /\ ta = "ts"  /\ tb = "ts"  THEN DurResult(BSub(a.ns, b.ns))
    ELSE IF op = "-" /\ ta = "dur" /\ tb = "dur" THEN DurResult(BSub(a.ns, b.ns))
    ELSE IF op = "-" /\ ta = "dur" /\ tb = "ts"  THEN AnyOut       \* the implementation gives ts - dur; no property does
    ELSE Err("other")

Neg(a) ==
    CASE a.t = "int"  -> LET r == BNeg(a.n) IN IF InIntRange(r) THEN Ok(VInt(r)) ELSE Err("other")
      [] a.t = "dbl"  -> Ok(VDbl(DNeg(DOf(a))))
      [] a.t = "bool" -> AnyOut
      [] OTHER        -> Err("other")
Not(a) == Ok(VBool(~Truthy(a)))

----------------------------------------------------------------------------
(* order and equality (C04) *)
RECURSIVE SeqCmp(_, _, _)
SeqCmp(a, b, i) == IF i > Len(a) THEN (IF i > Len(b) THEN "eq" ELSE "lt")
                   ELSE IF i > Len(b) THEN "gt"
                   ELSE IF a[i] < b[i] THEN "lt" ELSE IF a[i] > b[i] THEN "gt" ELSE SeqCmp(a, b, i + 1)
BCmpName(c) == IF c < 0 THEN "lt" ELSE IF c > 0 THEN "gt" ELSE "eq"

(* [k |-> "ord", c |-> "lt"|"eq"|"gt"|"un"] | [k |-> "opt", c] | [k |-> "err"] *)
Ord(a, b) ==
    LET ta == a.t  tb == b.t  num == {"int", "uint", "dbl", "bool"} IN
    IF ta \in num /\ tb \in num
    THEN (IF ta = "bool" /\ tb = "bool"
          THEN [k |-> "ord", c |-> IF a.b = b.b THEN "eq" ELSE IF b.b THEN "lt" ELSE "gt"]
          ELSE LET c == IF ta = "dbl" \/ tb = "dbl" THEN DCmp(ToDbl(a), ToDbl(b)) ELSE BCmpName(BCmp(NumOf(a), NumOf(b)))
               IN [k |-> IF ta = "bool" \/ tb = "bool" THEN "opt" ELSE "ord", c |-> c])
    ELSE IF ta = tb /\ ta \in {"str", "bytes"} THEN [k |-> "ord", c |-> SeqCmp(a.s, b.s, 1)]
    ELSE IF ta = tb /\ ta \in {"ts", "dur"}    THEN [k |-> "ord", c |-> BCmpName(BCmp(a.ns, b.ns))]
    ELSE [k |-> "err"]

Holds(op, c) ==
    CASE op = "<"  -> c = "lt"
      [] op = "<=" -> c \in {"lt", "eq"}
      [] op = ">"  -> c = "gt"
      [] op = ">=" -> c \in {"gt", "eq"}

Rel(op, a, b) == LET o == Ord(a, b)
                 IN IF o.k = "err" THEN Err("other")
                    ELSE IF o.k = "opt" THEN Opt(VBool(Holds(op, o.c)))
                    ELSE Ok(VBool(Holds(op, o.c)))

RECURSIVE Eq(_, _), EqAll(_, _, _), EqKv(_, _, _)
Eq(a, b) ==
    LET ta == a.t  tb == b.t  num == {"int", "uint", "dbl"} IN
    IF ta \in num /\ tb \in num
    THEN Ok(VBool(IF ta = "dbl" \/ tb = "dbl" THEN DCmp(ToDbl(a), ToDbl(b)) = "eq" ELSE BCmp(a.n, b.n) = 0))
    ELSE IF ta = "bool" /\ tb = "bool" THEN Ok(VBool(a.b = b.b))
    ELSE IF (ta = "bool" /\ tb \in num) \/ (tb = "bool" /\ ta \in num) THEN AnyOut
    ELSE IF ta # tb THEN Opt(VFalse)
    ELSE IF ta \in {"str", "bytes"} THEN Ok(VBool(a.s = b.s))
    ELSE IF ta = "type" THEN Ok(VBool(a.name = b.name))
    ELSE IF ta \in {"ts", "dur"} THEN Ok(VBool(a.ns = b.ns))
    ELSE IF ta = "null" THEN Ok(VTrue)
    ELSE IF ta = "list" THEN (IF Len(a.s) # Len(b.s) THEN Ok(VFalse) ELSE EqAll(a.s, b.s, 1))
    ELSE IF ta = "map"  THEN (IF [i \in 1..Len(a.kv) |-> a.kv[i][1]] # [i \in 1..Len(b.kv) |-> b.kv[i][1]]
                              THEN Ok(VFalse) ELSE EqKv(a.kv, b.kv, 1))
    ELSE AnyOut
EqAll(x, y, i) == IF i > Len(x) THEN Ok(VTrue)
                  ELSE LET e == Eq(x[i], y[i])
                       IN IF e = Ok(VTrue) THEN EqAll(x, y, i + 1)
                          ELSE IF e = Ok(VFalse) THEN (IF EqAll(x, y, i + 1).o = "ok" THEN Ok(VFalse) ELSE AnyOut)
                          ELSE AnyOut
EqKv(x, y, i) == IF i > Len(x) THEN Ok(VTrue)
                 ELSE LET e == Eq(x[i][2], y[i][2])
                      IN IF e = Ok(VTrue) THEN EqKv(x, y, i + 1)
                         ELSE IF e = Ok(VFalse) THEN (IF EqKv(x, y, i + 1).o = "ok" THEN Ok(VFalse) ELSE AnyOut)
                         ELSE AnyOut
NotOutcome(x) == IF x.o = "ok" THEN Ok(VBool(~x.v.b)) ELSE IF x.o = "opt" THEN Opt(VBool(~x.v.b)) ELSE x
Ne(a, b) == NotOutcome(Eq(a, b))

RelOp(op, a, b) == IF op = "==" THEN Eq(a, b) ELSE IF op = "!=" THEN Ne(a, b) ELSE Rel(op, a, b)

----------------------------------------------------------------------------
(* collections (C06) *)
RECURSIVE SameShape(_, _)
SameShape(a, b) ==
    /\ a.t = b.t
    /\ (a.t = "list" => Len(a.s) = Len(b.s) /\ \A i \in 1..Len(a.s) : SameShape(a.s[i], b.s[i]))
    /\ (a.t = "map"  => Len(a.kv) = Len(b.kv) /\ \A i \in 1..Len(a.kv) : a.kv[i][1] = b.kv[i][1] /\ SameShape(a.kv[i][2], b.kv[i][2]))

MapHas(kv, k) == \E i \in 1..Len(kv) : kv[i][1] = k
MapGet(kv, k) == kv[CHOOSE i \in 1..Len(kv) : kv[i][1] = k][2]

RECURSIVE IsSubAt(_, _, _)
IsSubAt(n, h, at) == IF at + Len(n) - 1 > Len(h) THEN FALSE
                     ELSE IF SubSeq(h, at, at + Len(n) - 1) = n THEN TRUE ELSE IsSubAt(n, h, at + 1)
IsSubstring(n, h) == n = <<>> \/ IsSubAt(n, h, 1)

In(x, c) ==
    IF c.t = "list"
    THEN LET certain == \E i \in 1..Len(c.s) : SameShape(x, c.s[i]) /\ Eq(x, c.s[i]) = Ok(VTrue)
             possible == \E i \in 1..Len(c.s) : LET e == Eq(x, c.s[i]) IN ~(e.o \in {"ok", "opt"} /\ e.v = VFalse)
         IN IF certain THEN Ok(VTrue) ELSE IF possible THEN AnyOut ELSE Ok(VFalse)
    ELSE IF c.t = "map" THEN (IF x.t = "str" THEN Ok(VBool(MapHas(c.kv, x.s))) ELSE Err("other"))
    ELSE IF c.t = "str" THEN (IF x.t = "str" THEN Ok(VBool(IsSubstring(x.s, c.s))) ELSE Err("other"))
    ELSE Err("other")

Index(obj, i) ==
    IF obj.t = "list"
    THEN (IF i.t \in {"int", "uint"}
          THEN LET n == Len(obj.s)
                   k == IF BCmp(BAbs(i.n), BFromInt(n + 2)) > 0 THEN (IF i.n.s < 0 THEN -n - 1 ELSE n) ELSE BToInt(i.n)
                   j == IF k < 0 THEN n + k ELSE k
               IN IF j >= 0 /\ j < n THEN Ok(obj.s[j + 1]) ELSE Err("other")
          ELSE Err("other"))
    ELSE IF obj.t = "map"
    THEN (IF i.t = "str" THEN (IF MapHas(obj.kv, i.s) THEN Ok(MapGet(obj.kv, i.s)) ELSE Err("absent")) ELSE Err("other"))
    ELSE IF obj.t \in {"str", "bytes"} THEN AnyOut
    ELSE Err("other")

Select(obj, fc) ==
    IF obj.t = "map" THEN (IF MapHas(obj.kv, fc) THEN Ok(MapGet(obj.kv, fc)) ELSE Err("absent"))
    ELSE Err("either")

Utf8Len(cp) == IF cp < 128 THEN 1 ELSE IF cp < 2048 THEN 2 ELSE IF cp < 65536 THEN 3 ELSE 4
RECURSIVE Utf8Size(_, _)
Utf8Size(s, i) == IF i > Len(s) THEN 0 ELSE Utf8Len(s[i]) + Utf8Size(s, i + 1)
Size(v) == CASE v.t = "str" -> Ok(VUint(BFromInt(Utf8Size(v.s, 1))))
             [] v.t \in {"bytes", "list"} -> Ok(VUint(BFromInt(Len(v.s))))
             [] v.t = "map" -> AnyOut
             [] OTHER -> Err("other")

(* map literal from evaluated <<key, value>> pairs: keys must be strings, last entry wins; kept sorted *)
RECURSIVE KvInsert(_, _, _, _)
KvInsert(kv, k, v, i) ==
    IF i > Len(kv) THEN Append(kv, <<k, v>>)
    ELSE LET c == SeqCmp(k, kv[i][1], 1)
         IN IF c = "eq" THEN [kv EXCEPT ![i] = <<k, v>>]
            ELSE IF c = "lt" THEN SubSeq(kv, 1, i - 1) \o <<<<k, v>>>> \o SubSeq(kv, i, Len(kv))
            ELSE KvInsert(kv, k, v, i + 1)
RECURSIVE MkMapFrom(_, _, _)
MkMapFrom(pairs, i, acc) ==
    IF i > Len(pairs) THEN Ok(VMap(acc))
    ELSE IF pairs[i][1].t # "str" THEN Err("other")
    ELSE MkMapFrom(pairs, i + 1, KvInsert(acc, pairs[i][1].s, pairs[i][2], 1))
MkMap(pairs) == MkMapFrom(pairs, 1, <<>>)

(* does an observed outcome [o |-> "ok", v] | [o |-> "err", c] | [o |-> "crash"] satisfy an abstract one? *)
Matches(obs, abs) ==
    /\ obs.o \in {"ok", "err"}
    /\ CASE abs.o = "any" -> obs.o = "ok" \/ obs.c \in {"absent", "other"}
         [] abs.o = "ok"  -> obs.o = "ok" /\ obs.v = abs.v
         [] abs.o = "opt" -> (obs.o = "ok" /\ obs.v = abs.v) \/ (obs.o = "err" /\ obs.c \in {"absent", "other"})
         [] abs.o = "err" -> obs.o = "err" /\ (IF abs.c = "either" THEN obs.c \in {"absent", "other"} ELSE obs.c = abs.c)
=============================================================================
