--------------------------- MODULE Trace_Params ---------------------------
(***************************************************************************)
(* Validation of reported parameter lists (C17): for each recorded        *)
(* compilation, FreeVars(tree) \subseteq reported \subseteq identifiers   *)
(* occurring in the source; filtering against a binding set removes       *)
(* exactly the names it binds; changing an unreported identifier's        *)
(* binding does not change the outcome.                                    *)
(***************************************************************************)
EXTENDS Params, TLC, Json, IOUtils

Rec == ndJsonDeserialize(IOEnv.TRACE)
VARIABLES l
Init == l = 1

SeqSet(s) == {s[i] : i \in 1..Len(s)}
TypeNames == {"bool", "int", "uint", "float", "double", "string", "bytes", "type", "timestamp", "duration", "null_type", "dyn"}
Verdict(r) ==
    LET rep == SeqSet(r.params)
        free == FreeVars(r.tree, {}) \ TypeNames
        idents == SeqSet(r.idents)
    IN IF r.compile.o # "ok" THEN "did-not-compile"
       ELSE IF ~(free \subseteq rep) THEN "variable-not-reported"
       ELSE IF ~(rep \subseteq idents) THEN "reported-name-not-in-source"
       ELSE IF \E i \in 1..Len(r.filters) : SeqSet(r.filters[i].filtered) # rep \ SeqSet(r.filters[i].bound) THEN "filter-wrong"
       ELSE IF \E i \in 1..Len(r.relevance) : r.relevance[i].a # r.relevance[i].b THEN "unreported-name-changes-result"
       ELSE "ok"
Missing(r) == IF "params" \in DOMAIN r THEN ToString((FreeVars(r.tree, {}) \ TypeNames) \ SeqSet(r.params)) ELSE "-"

Step == /\ l <= Len(Rec)
        /\ LET v == Verdict(Rec[l]) IN IF v = "ok" THEN TRUE ELSE PrintT(<<"VERDICT", Rec[l].id, v, Missing(Rec[l])>>)
        /\ l' = l + 1
Done == /\ l = Len(Rec) + 1
        /\ PrintT(<<"SUMMARY", Len(Rec), 0, Len(Rec), 0>>)
        /\ l' = l + 1
Next == Step \/ Done
=============================================================================
