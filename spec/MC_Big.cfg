INIT Init
NEXT Next
INVARIANT OkRoundTrip
INVARIANT OkAdd
INVARIANT OkSub
INVARIANT OkMul
INVARIANT OkMulBig
INVARIANT OkDiv
INVARIANT OkCmp
INVARIANT OkShift
INVARIANT OkDigits
INVARIANT OkBigDiv
INVARIANT OkLongDiv
CHECK_DEADLOCK FALSE
