------------------------------- MODULE Compile -------------------------------
(***************************************************************************)
(* The compilation schemes of rscel/src/compiler/compiler.rs for the case *)
(* in which nothing folds (every operand is bytecode): one clause per     *)
(* grammar production, jumps as relative distances from the instruction   *)
(* after the jump.  MC_Lazy checks that running Compile(t) on VM.tla      *)
(* agrees with Eval(t) for every tree up to a size bound (C05 C07 C08     *)
(* C09 C10 at the level of the design); the recorded bytecode of the real *)
(* compiler is run on the same VM in Trace_VM.                            *)
(***************************************************************************)
EXTENDS VM

I(op) == [op |-> op]
Push(v) == [op |-> "PUSH", v |-> v]
PushId(n) == Push([t |-> "ident", n |-> n])
JmpC(w, d) == [op |-> "JMPC", when |-> w, d |-> d]
Jmp(d) == [op |-> "JMP", d |-> d]
N(op, n) == [op |-> op, n |-> n]
Code(c) == [t |-> "code", c |-> c]

BinOpName(op) == CASE op = "+" -> "ADD" [] op = "-" -> "SUB" [] op = "*" -> "MUL" [] op = "/" -> "DIV" [] op = "%" -> "MOD"
                   [] op = "<" -> "LT" [] op = "<=" -> "LE" [] op = "==" -> "EQ" [] op = "!=" -> "NE" [] op = ">=" -> "GE"
                   [] op = ">" -> "GT" [] op = "in" -> "IN"

RECURSIVE Chain(_, _)
(* operands of a left-nested chain of one short-circuit operator (a parenthesis starts a new chain) *)
Chain(t, op) == IF t.k = "bin" /\ t.op = op THEN Append(Chain(t.l, op), t.r) ELSE <<t>>

RECURSIVE C(_), CArgs(_, _), CElems(_, _), CPairs(_, _), CSegs(_, _), CCases(_, _, _), CasesLen(_, _), Rep(_, _)
Rep(i, n) == IF n = 0 THEN <<>> ELSE <<i>> \o Rep(i, n - 1)
CElems(ts, i) == IF i > Len(ts) THEN <<>> ELSE C(ts[i]) \o CElems(ts, i + 1)
CPairs(kv, i) == IF i > Len(kv) THEN <<>> ELSE C(kv[i][2]) \o C(kv[i][1]) \o CPairs(kv, i + 1)      \* value, then key
CArgs(ts, i) == IF i = 0 THEN <<>> ELSE <<Push(Code(C(ts[i])))>> \o CArgs(ts, i - 1)              \* last argument first
CSegs(segs, i) == IF i > Len(segs) THEN <<>>
                  ELSE <<Push(IF "s" \in DOMAIN segs[i] THEN VStr(segs[i].s) ELSE Code(C(segs[i].e))), PushId("string"), N("CALL", 1)>> \o CSegs(segs, i + 1)
Pattern(p) == IF p.pk = "any" THEN <<I("POP"), Push(VTrue)>>
              ELSE IF p.pk = "type" THEN <<PushId("type"), N("CALL", 1), PushId(p.n), I("EQ")>>
              ELSE C(p.v) \o <<I(BinOpName(p.op))>>
CaseLen(c) == 1 + Len(Pattern(c.p)) + 1 + 1 + Len(C(c.e)) + 1
CasesLen(cs, i) == IF i > Len(cs) THEN 0 ELSE CaseLen(cs[i]) + CasesLen(cs, i + 1)
(* rest = number of instructions after this case up to the end of the match (the other cases and POP PUSH null) *)
CCases(cs, i, rest) ==
    IF i > Len(cs) THEN <<>>
    ELSE LET pat == Pattern(cs[i].p)  body == C(cs[i].e)
             after == rest - CaseLen(cs[i])
         IN <<I("DUP")>> \o pat \o <<JmpC(FALSE, 1 + Len(body) + 1), I("POP")>> \o body \o <<Jmp(after)>> \o CCases(cs, i + 1, after)

C(t) ==
    CASE t.k = "lit" -> <<Push(t.v)>>
      [] t.k = "id" -> <<PushId(t.n)>>
      [] t.k = "paren" -> C(t.e)
      [] t.k = "un" -> C(t.e) \o Rep(I(IF t.op = "!" THEN "NOT" ELSE "NEG"), t.n)
      [] t.k = "bin" ->
           IF t.op \in {"||", "&&"} THEN
              LET es == Chain(t, t.op)
                  parts == [j \in 1..Len(es) |-> C(es[j])]
                  RECURSIVE Total(_)
                  Total(j) == IF j > Len(es) THEN 0 ELSE (IF j = 1 THEN 0 ELSE 4) + Len(parts[j]) + Total(j + 1)
                  total == Total(1)
                  RECURSIVE Build(_, _)
                  Build(j, sofar) ==            \* sofar = instructions emitted before operand j's prefix
                      IF j > Len(es) THEN <<>>
                      ELSE <<I("TEST"), I("DUP"), JmpC(t.op = "||", total - (sofar + 3))>> \o parts[j] \o <<I(IF t.op = "||" THEN "OR" ELSE "AND")>>
                           \o Build(j + 1, sofar + 4 + Len(parts[j]))
              IN parts[1] \o Build(2, Len(parts[1]))
           ELSE C(t.l) \o C(t.r) \o <<I(BinOpName(t.op))>>
      [] t.k = "tern" ->
           LET a == C(t.a)  b == C(t.b) IN
           C(t.c) \o <<I("TEST"), I("DUP"), JmpC(FALSE, 1 + Len(a) + 1), I("POP")>> \o a \o <<Jmp(4 + Len(b))>>
                  \o <<I("DUP"), I("NOT"), JmpC(FALSE, 1 + Len(b)), I("POP")>> \o b
      [] t.k = "list" -> CElems(t.es, 1) \o <<N("MKLIST", Len(t.es))>>
      [] t.k = "map" -> CPairs(t.kv, 1) \o <<N("MKDICT", Len(t.kv))>>
      [] t.k = "sel" -> C(t.e) \o <<Push([t |-> "ident", n |-> t.f, fc |-> t.fc]), I("ACCESS")>>
      [] t.k = "idx" -> C(t.e) \o C(t.i) \o <<I("INDEX")>>
      [] t.k = "fstr" -> CSegs(t.segs, 1) \o <<N("FMT", Len(t.segs))>>
      [] t.k = "match" ->
           LET tail == <<I("POP"), Push(VNull)>> IN
           C(t.e) \o CCases(t.cases, 1, CasesLen(t.cases, 1) + 2) \o tail
      [] t.k = "call" -> CArgs(t.args, Len(t.args)) \o <<PushId(t.f), N("CALL", Len(t.args))>>
      [] t.k = "mcall" -> CArgs(t.args, Len(t.args)) \o C(t.r) \o <<Push([t |-> "ident", n |-> t.f, fc |-> t.fc]), I("ACCESS"), N("CALL", Len(t.args))>>

Compile(t) == <<C(t)>>          \* a program: block 1 is the code, nested blocks are carried by their operands
=============================================================================
