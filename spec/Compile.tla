------------------------------- MODULE Compile -------------------------------
(***************************************************************************)
(* The compilation schemes of rscel/src/compiler/compiler.rs for the case *)
(* in which nothing folds (every operand is bytecode): one clause per     *)
(* grammar production, jumps as relative distances from the instruction   *)
(* after the jump.  MC_Lazy checks that running Compile(t) on VM.tla      *)
(* agrees with Eval(t) for every tree up to a size bound (C05 C07 C08     *)
(* C09 C10 at the level of the design); the recorded bytecode of the real *)
(* compiler is run on the same VM in Trace_VM.                            *)
(***************************************************************************)
EXTENDS VM

I(op) == [op |-> op]
Push(v) == [op |-> "PUSH", v |-> v]
PushId(n) == Push([t |-> "ident", n |-> n])
JmpC(w, d) == [op |-> "JMPC", when |-> w, d |-> d]
Jmp(d) == [op |-> "JMP", d |-> d]
N(op, n) == [op |-> op, n |-> n]
Code(c) == [t |-> "code", c |-> c]

BinOpName(op) == CASE op = "+" -> "ADD" [] op = "-" -> "SUB" [] op = "*" -> "MUL" [] op = "/" -> "DIV" [] op = "%" -> "MOD"
                   [] op = "<" -> "LT" [] op = "<=" -> "LE" [] op = "==" -> "EQ" [] op = "!=" -> "NE" [] op = ">=" -> "GE"
                   [] op = ">" -> "GT" [] op = "in" -> "IN"

(* adjacent literal parts of an f-string are one piece of text to the tokenizer *)
RECURSIVE MergeSegs(_, _, _)
MergeSegs(segs, i, acc) ==
    IF i > Len(segs) THEN acc
    ELSE IF "s" \in DOMAIN segs[i] /\ acc # <<>> /\ "s" \in DOMAIN acc[Len(acc)]
         THEN MergeSegs(segs, i + 1, [acc EXCEPT ![Len(acc)] = [s |-> acc[Len(acc)].s \o segs[i].s]])
         ELSE MergeSegs(segs, i + 1, Append(acc, segs[i]))
Segs1(t) == MergeSegs(t.segs, 1, <<>>)

RECURSIVE Chain(_, _)
(* operands of a left-nested chain of one short-circuit operator (a parenthesis starts a new chain) *)
Chain(t, op) == IF t.k = "bin" /\ t.op = op THEN Append(Chain(t.l, op), t.r) ELSE <<t>>

RECURSIVE C(_), CArgs(_, _), CElems(_, _), CPairs(_, _), CSegs(_, _), CCases(_, _, _), CasesLen(_, _), Rep(_, _)
Rep(i, n) == IF n = 0 THEN <<>> ELSE <<i>> \o Rep(i, n - 1)
CElems(ts, i) == IF i > Len(ts) THEN <<>> ELSE C(ts[i]) \o CElems(ts, i + 1)
CPairs(kv, i) == IF i > Len(kv) THEN <<>> ELSE C(kv[i][2]) \o C(kv[i][1]) \o CPairs(kv, i + 1)      \* value, then key
CArgs(ts, i) == IF i = 0 THEN <<>> ELSE <<Push(Code(C(ts[i])))>> \o CArgs(ts, i - 1)              \* last argument first
CSegs(segs, i) == IF i > Len(segs) THEN <<>>
                  ELSE <<Push(IF "s" \in DOMAIN segs[i] THEN VStr(segs[i].s) ELSE Code(C(segs[i].e))), PushId("string"), N("CALL", 1)>> \o CSegs(segs, i + 1)
Pattern(p) == IF p.pk = "any" THEN <<I("POP"), Push(VTrue)>>
              ELSE IF p.pk = "type" THEN <<PushId("type"), N("CALL", 1), PushId(p.n), I("EQ")>>
              ELSE C(p.v) \o <<I(BinOpName(p.op))>>
CaseLen(c) == 1 + Len(Pattern(c.p)) + 1 + 1 + Len(C(c.e)) + 1
CasesLen(cs, i) == IF i > Len(cs) THEN 0 ELSE CaseLen(cs[i]) + CasesLen(cs, i + 1)
(* rest = number of instructions after this case up to the end of the match (the other cases and POP PUSH null) *)
CCases(cs, i, rest) ==
    IF i > Len(cs) THEN <<>>
    ELSE LET pat == Pattern(cs[i].p)  body == C(cs[i].e)
             after == rest - CaseLen(cs[i])
         IN <<I("DUP")>> \o pat \o <<JmpC(FALSE, 1 + Len(body) + 1), I("POP")>> \o body \o <<Jmp(after)>> \o CCases(cs, i + 1, after)

C(t) ==
    CASE t.k = "lit" -> <<Push(t.v)>>
      [] t.k = "id" -> <<PushId(t.n)>>
      [] t.k = "paren" -> C(t.e)
      [] t.k = "un" -> C(t.e) \o Rep(I(IF t.op = "!" THEN "NOT" ELSE "NEG"), t.n)
      [] t.k = "bin" ->
           IF t.op \in {"||", "&&"} THEN
              LET es == Chain(t, t.op)
                  parts == [j \in 1..Len(es) |-> C(es[j])]
                  RECURSIVE Total(_)
                  Total(j) == IF j > Len(es) THEN 0 ELSE (IF j = 1 THEN 0 ELSE 4) + Len(parts[j]) + Total(j + 1)
                  total == Total(1)
                  RECURSIVE Build(_, _)
                  Build(j, sofar) ==            \* sofar = instructions emitted before operand j's prefix
                      IF j > Len(es) THEN <<>>
                      ELSE <<I("TEST"), I("DUP"), JmpC(t.op = "||", total - (sofar + 3))>> \o parts[j] \o <<I(IF t.op = "||" THEN "OR" ELSE "AND")>>
                           \o Build(j + 1, sofar + 4 + Len(parts[j]))
              IN parts[1] \o Build(2, Len(parts[1]))
           ELSE C(t.l) \o C(t.r) \o <<I(BinOpName(t.op))>>
      [] t.k = "tern" ->
           LET a == C(t.a)  b == C(t.b) IN
           C(t.c) \o <<I("TEST"), I("DUP"), JmpC(FALSE, 1 + Len(a) + 1), I("POP")>> \o a \o <<Jmp(4 + Len(b))>>
                  \o <<I("DUP"), I("NOT"), JmpC(FALSE, 1 + Len(b)), I("POP")>> \o b
      [] t.k = "list" -> CElems(t.es, 1) \o <<N("MKLIST", Len(t.es))>>
      [] t.k = "map" -> CPairs(t.kv, 1) \o <<N("MKDICT", Len(t.kv))>>
      [] t.k = "sel" -> C(t.e) \o <<Push([t |-> "ident", n |-> t.f, fc |-> t.fc]), I("ACCESS")>>
      [] t.k = "idx" -> C(t.e) \o C(t.i) \o <<I("INDEX")>>
      [] t.k = "fstr" -> CSegs(Segs1(t), 1) \o <<N("FMT", Len(Segs1(t)))>>
      [] t.k = "match" ->
           LET tail == <<I("POP"), Push(VNull)>> IN
           C(t.e) \o CCases(t.cases, 1, CasesLen(t.cases, 1) + 2) \o tail
      [] t.k = "call" -> CArgs(t.args, Len(t.args)) \o <<PushId(t.f), N("CALL", Len(t.args))>>
      [] t.k = "mcall" -> CArgs(t.args, Len(t.args)) \o C(t.r) \o <<Push([t |-> "ident", n |-> t.f, fc |-> t.fc]), I("ACCESS"), N("CALL", Len(t.args))>>

Compile(t) == <<C(t)>>          \* a program: block 1 is the code, nested blocks are carried by their operands

----------------------------------------------------------------------------
(* The folding compiler (C09).  F(t) is either a constant or code:                                                    *)
(*   - an operator folds when all its operands are constants (failures fold into failure constants);                  *)
(*   - || and && never fold (their short-circuit prefix is always code), a unary prefix never folds;                  *)
(*   - ?: with a constant condition IS the chosen clause (a failed condition is that failure);                        *)
(*   - a list / map of constants is a constant; {..}.f on a constant map with that field is the field;                *)
(*   - a call is compiled to code and then run once at compile time (check_for_const) under the compile-time         *)
(*     bindings (built-in functions, macros and types; no variables, no programs): it becomes a constant only when    *)
(*     that run produced a value, met no unresolved name, and the code does not read the clock.                       *)
(* Cst(Unk) stands for "the model cannot tell": it makes the run undetermined, never a disagreement.                  *)
Cst(v) == [c |-> TRUE, v |-> v]
Cod(code) == [c |-> FALSE, code |-> code]
BC(n) == IF n.c THEN <<Push(n.v)>> ELSE n.code
EmptyF == [x \in {} |-> 0]
CompileEnv == [vars |-> EmptyF, progs |-> EmptyF, funcs |-> EmptyF, nomacros |-> {"has", "coalesce"}]
Op2(op, a, b) == Step1(<<>>, <<I(op)>>, 0, <<a, b>>, CompileEnv, 1, <<>>).stack[1]
RECURSIVE ReadsClock(_)
ReadsClock(code) ==
    \/ \E k \in 1..(Len(code) - 1) : /\ code[k].op = "PUSH" /\ code[k].v.t = "ident" /\ code[k].v.n \in {"now", "timestamp"}
                                      /\ code[k + 1].op = "CALL" /\ code[k + 1].n = 0
    \/ \E k \in 1..Len(code) : code[k].op = "PUSH" /\ code[k].v.t = "code" /\ ReadsClock(code[k].v.c)
CheckForConst(code) ==
    IF ReadsClock(code) THEN Cod(code)
    ELSE LET r == RunBlock(<<>>, code, CompileEnv, 0) IN
         IF r.k = "hard" THEN Cod(code)                       \* a failure is never folded: the code stays
         ELSE IF SawUnresolved(r.log) THEN Cod(code)
         ELSE Cst(r.v)                                        \* possibly Unk

RECURSIVE F(_), FArgs(_, _), FAll(_, _)
FArgs(ts, i) == IF i = 0 THEN <<>> ELSE <<Push(Code(BC(F(ts[i]))))>> \o FArgs(ts, i - 1)
FAll(ts, i) == IF i > Len(ts) THEN <<>> ELSE <<F(ts[i])>> \o FAll(ts, i + 1)
F(t) ==
    CASE t.k = "lit" ->          \* a negative number is written, and compiled, as a unary minus
           IF t.v.t = "int" /\ t.v.n.s = -1 THEN Cod(<<Push(VInt(BNeg(t.v.n))), I("NEG")>>)
           ELSE IF t.v.t = "dbl" /\ t.v.neg THEN Cod(<<Push([t.v EXCEPT !.neg = FALSE]), I("NEG")>>)
           ELSE Cst(t.v)
      [] t.k = "id" -> Cod(<<PushId(t.n)>>)
      [] t.k = "paren" -> F(t.e)
      [] t.k = "un" -> Cod(BC(F(t.e)) \o Rep(I(IF t.op = "!" THEN "NOT" ELSE "NEG"), t.n))
      [] t.k = "bin" ->
           IF t.op \in {"||", "&&"} THEN
              LET es == Chain(t, t.op)
                  parts == [j \in 1..Len(es) |-> BC(F(es[j]))]
                  RECURSIVE Total(_)
                  Total(j) == IF j > Len(es) THEN 0 ELSE (IF j = 1 THEN 0 ELSE 4) + Len(parts[j]) + Total(j + 1)
                  total == Total(1)
                  RECURSIVE Build(_, _)
                  Build(j, sofar) ==
                      IF j > Len(es) THEN <<>>
                      ELSE <<I("TEST"), I("DUP"), JmpC(t.op = "||", total - (sofar + 3))>> \o parts[j] \o <<I(IF t.op = "||" THEN "OR" ELSE "AND")>>
                           \o Build(j + 1, sofar + 4 + Len(parts[j]))
              IN Cod(parts[1] \o Build(2, Len(parts[1])))
           ELSE LET a == F(t.l)  b == F(t.r) IN
                IF a.c /\ b.c THEN Cst(Op2(BinOpName(t.op), a.v, b.v))
                ELSE Cod(BC(a) \o BC(b) \o <<I(BinOpName(t.op))>>)
      [] t.k = "tern" ->
           LET c == F(t.c) IN
           IF c.c THEN (IF IsUnk(c.v) THEN Cst(Unk) ELSE IF IsErrV(c.v) THEN c ELSE IF TruthyV(c.v) THEN F(t.a) ELSE F(t.b))
           ELSE LET a == BC(F(t.a))  b == BC(F(t.b)) IN
                Cod(c.code \o <<I("TEST"), I("DUP"), JmpC(FALSE, 1 + Len(a) + 1), I("POP")>> \o a \o <<Jmp(4 + Len(b))>>
                           \o <<I("DUP"), I("NOT"), JmpC(FALSE, 1 + Len(b)), I("POP")>> \o b)
      [] t.k = "list" ->
           LET es == FAll(t.es, 1) IN
           IF \A k \in 1..Len(es) : es[k].c
           THEN Cst(IF \E k \in 1..Len(es) : IsErrV(es[k].v) \/ IsUnk(es[k].v) THEN Unk ELSE VList([k \in 1..Len(es) |-> es[k].v]))
           ELSE LET RECURSIVE Cat(_)
                    Cat(k) == IF k > Len(es) THEN <<>> ELSE BC(es[k]) \o Cat(k + 1)
                IN Cod(Cat(1) \o <<N("MKLIST", Len(es))>>)
      [] t.k = "map" ->
           LET ks == [k \in 1..Len(t.kv) |-> F(t.kv[k][1])]
               vs == [k \in 1..Len(t.kv) |-> F(t.kv[k][2])]
           IN IF \A k \in 1..Len(t.kv) : ks[k].c /\ vs[k].c
              THEN Cst(IF \E k \in 1..Len(t.kv) : IsErrV(ks[k].v) \/ IsUnk(ks[k].v) \/ IsErrV(vs[k].v) \/ IsUnk(vs[k].v) THEN Unk
                       ELSE OfOutcome(MkMap([k \in 1..Len(t.kv) |-> <<ks[k].v, vs[k].v>>])))
              ELSE LET RECURSIVE Cat(_)
                       Cat(k) == IF k > Len(t.kv) THEN <<>> ELSE BC(vs[k]) \o BC(ks[k]) \o Cat(k + 1)
                   IN Cod(Cat(1) \o <<N("MKDICT", Len(t.kv))>>)
      [] t.k = "sel" ->
           LET o == F(t.e) IN
           IF o.c /\ IsUnk(o.v) THEN Cst(Unk)
           ELSE IF o.c /\ o.v.t = "map" /\ MapHas(o.v.kv, t.fc) THEN Cst(MapGet(o.v.kv, t.fc))
           ELSE Cod(BC(o) \o <<Push([t |-> "ident", n |-> t.f, fc |-> t.fc]), I("ACCESS")>>)
      [] t.k = "idx" ->
           LET a == F(t.e)  b == F(t.i) IN
           IF a.c /\ b.c THEN Cst(Op2("INDEX", a.v, b.v)) ELSE Cod(BC(a) \o BC(b) \o <<I("INDEX")>>)
      [] t.k = "fstr" ->
           LET sg == Segs1(t)
               RECURSIVE Sg(_)
               Sg(i) == IF i > Len(sg) THEN <<>>
                        ELSE <<Push(IF "s" \in DOMAIN sg[i] THEN VStr(sg[i].s) ELSE Code(BC(F(sg[i].e)))), PushId("string"), N("CALL", 1)>> \o Sg(i + 1)
               RECURSIVE Txt(_)
               Txt(i) == IF i > Len(sg) THEN <<>> ELSE sg[i].s \o Txt(i + 1)
           IN IF \A i \in 1..Len(sg) : "s" \in DOMAIN sg[i] THEN Cst(VStr(Txt(1)))       \* no expression segment: the tokenizer yields a plain string
              ELSE Cod(Sg(1) \o <<N("FMT", Len(sg))>>)
      [] t.k = "match" ->
           LET Pat(p) == IF p.pk = "any" THEN <<I("POP"), Push(VTrue)>>
                         ELSE IF p.pk = "type" THEN <<PushId("type"), N("CALL", 1), PushId(p.n), I("EQ")>>
                         ELSE BC(F(p.v)) \o <<I(BinOpName(p.op))>>
               CL(c) == 1 + Len(Pat(c.p)) + 1 + 1 + Len(BC(F(c.e))) + 1
               RECURSIVE CsLen(_), Cs(_, _)
               CsLen(i) == IF i > Len(t.cases) THEN 0 ELSE CL(t.cases[i]) + CsLen(i + 1)
               Cs(i, rest) == IF i > Len(t.cases) THEN <<>>
                              ELSE LET pat == Pat(t.cases[i].p)  body == BC(F(t.cases[i].e))  after == rest - CL(t.cases[i])
                                   IN <<I("DUP")>> \o pat \o <<JmpC(FALSE, 1 + Len(body) + 1), I("POP")>> \o body \o <<Jmp(after)>> \o Cs(i + 1, after)
           IN Cod(BC(F(t.e)) \o Cs(1, CsLen(1) + 2) \o <<I("POP"), Push(VNull)>>)
      [] t.k = "call" -> CheckForConst(FArgs(t.args, Len(t.args)) \o <<PushId(t.f), N("CALL", Len(t.args))>>)
      [] t.k = "mcall" ->
           LET o == F(t.r)
               callee == IF o.c /\ ~IsUnk(o.v) /\ o.v.t = "map" /\ MapHas(o.v.kv, t.fc) THEN <<Push(MapGet(o.v.kv, t.fc))>>
                         ELSE BC(o) \o <<Push([t |-> "ident", n |-> t.f, fc |-> t.fc]), I("ACCESS")>>
           IN IF o.c /\ IsUnk(o.v) THEN Cst(Unk)
              ELSE CheckForConst(FArgs(t.args, Len(t.args)) \o callee \o <<N("CALL", Len(t.args))>>)

CompileF(t) == <<BC(F(t))>>
=============================================================================
