INIT Init
NEXT Next
INVARIANT OkAdd
INVARIANT OkSub
INVARIANT OkMul
INVARIANT OkDiv
INVARIANT OkCmp
INVARIANT OkConv
INVARIANT OkInt
INVARIANT OkDec
CHECK_DEADLOCK FALSE
