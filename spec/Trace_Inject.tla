---------------------------- MODULE Trace_Inject ----------------------------
(***************************************************************************)
(* C10, last sentence: "The VM rejects any out-of-range jump with an error *)
(* rather than reading outside the program."  Records are instruction      *)
(* sequences no compiler emitted (forward jumps with distances up to past  *)
(* the end; boolean, failing and other conditions) and real programs with  *)
(* one jump perturbed, run through the public API.  VM.tla runs the same   *)
(* code: whenever its run ends in a jump out of the block the real run     *)
(* must have ended in an error (VERDICT); any other difference between the *)
(* two is model drift (DRIFT, diagnostic).  A crash is always a verdict.   *)
(***************************************************************************)
EXTENDS VM, TLC, Json, IOUtils

Rec == ndJsonDeserialize(IOEnv.TRACE)
VARIABLES l, nbad, noob, ndrift
vars == <<l, nbad, noob, ndrift>>

NoVars == [x \in {} |-> 0]
EnvAll(v) == [vars |-> IF v = "unbound" THEN NoVars ELSE [n \in {"a", "b", "c", "m"} |-> VBool(v = "true")],
              progs |-> NoVars, funcs |-> NoVars]
Model(code, env) == RunBlock(<<code>>, code, env, 0)
Oob(m) == m.k = "hard" /\ "oob" \in DOMAIN m.v
Verdict(m, out) == IF out.o = "crash" THEN "crash"
                   ELSE IF Oob(m) /\ out.o # "err" THEN "out-of-range-jump-not-rejected"
                   ELSE "ok"
Differs(m, out) == IF out.o = "crash" THEN FALSE
                   ELSE IF m.k = "hard" THEN out.o # "err" \/ (out.c # m.v.c)
                   ELSE IF IsUnk(m.v) THEN FALSE
                   ELSE out.o # "ok" \/ out.v # m.v
Runs(r) == IF "outs" \in DOMAIN r THEN [i \in 1..Len(r.outs) |-> [m |-> Model(r.code, EnvAll(r.outs[i].all)), out |-> r.outs[i].out]]
           ELSE <<[m |-> Model(r.code, EnvAll("unbound")), out |-> r.out]>>

Init == l = 1 /\ nbad = 0 /\ noob = 0 /\ ndrift = 0
Step == /\ l <= Len(Rec)
        /\ LET r == Rec[l]
               runs == Runs(r)
               bad == {i \in 1..Len(runs) : Verdict(runs[i].m, runs[i].out) # "ok"}
               drift == {i \in 1..Len(runs) : Verdict(runs[i].m, runs[i].out) = "ok" /\ Differs(runs[i].m, runs[i].out)}
           IN /\ nbad' = nbad + Cardinality(bad)
              /\ noob' = noob + Cardinality({i \in 1..Len(runs) : Oob(runs[i].m)})
              /\ ndrift' = ndrift + Cardinality(drift)
              /\ \A i \in bad : PrintT(<<"VERDICT", r.id, Verdict(runs[i].m, runs[i].out), ToJson(runs[i].out)>>)
              /\ \A i \in drift : PrintT(<<"DRIFT", r.id, i, ToJson([model |-> runs[i].m.k, out |-> runs[i].out])>>)
        /\ l' = l + 1
Done == /\ l = Len(Rec) + 1
        /\ PrintT(<<"SUMMARY", Len(Rec), nbad, noob, ndrift>>)
        /\ l' = l + 1
        /\ UNCHANGED <<nbad, noob, ndrift>>
Next == Step \/ Done
Spec == Init /\ [][Next]_vars
Accepted == TLCGet("stats").diameter = Len(Rec) + 2
=============================================================================
