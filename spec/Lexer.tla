------------------------------- MODULE Lexer -------------------------------
(***************************************************************************)
(* Denotation of literals, character by character (C13): what value a     *)
(* spelling denotes, and which spellings must be rejected.                 *)
(*   LitDenote(chars) = [k |-> "ok", v |-> value]                          *)
(*                    | [k |-> "reject"]      must be a syntax error       *)
(*                    | [k |-> "unknown"]     no property gives a meaning  *)
(* Numbers: decimal and 0x integers (out of range: reject), u suffix,      *)
(* decimal / exponent doubles (correctly rounded, see Dbl).                *)
(* Strings: ' or " quoted, prefixes r (raw), b (bytes), f (format, braces  *)
(* doubled); escapes \a \b \f \n \r \t \v \\ \' \" \xHH \XHH \uHHHH        *)
(* \UHHHHHHHH and three octal digits; invalid code points, malformed or    *)
(* truncated escapes and unterminated literals are rejected.               *)
(***************************************************************************)
EXTENDS Builtins

OkLit(v) == [k |-> "ok", v |-> v]
Reject == [k |-> "reject"]
Unknown == [k |-> "unknown"]

HexVal(c) == IF c >= 48 /\ c <= 57 THEN c - 48
             ELSE IF c >= 97 /\ c <= 102 THEN c - 87
             ELSE IF c >= 65 /\ c <= 70 THEN c - 55
             ELSE -1
IsHexCp(c) == HexVal(c) >= 0
IsOctCp(c) == c >= 48 /\ c <= 55
ValidScalar(cp) == cp >= 0 /\ cp <= 1114111 /\ ~(cp >= 55296 /\ cp <= 57343)

SimpleEsc == [x \in {97, 98, 102, 110, 114, 116, 118, 92, 39, 34} |->
                CASE x = 97 -> 7 [] x = 98 -> 8 [] x = 102 -> 12 [] x = 110 -> 10 [] x = 114 -> 13
                  [] x = 116 -> 9 [] x = 118 -> 11 [] OTHER -> x]

(* value of n hex digits starting at i, or -1 *)
RECURSIVE HexRun(_, _, _, _)
HexRun(s, i, n, acc) == IF n = 0 THEN acc
                        ELSE IF i > Len(s) \/ ~IsHexCp(s[i]) THEN -1
                        ELSE IF acc > 134217727 THEN -2          \* beyond any code point; avoid overflow
                        ELSE HexRun(s, i + 1, n - 1, acc * 16 + HexVal(s[i]))

(* body of a quoted literal starting after the opening quote; acc collects code points (strings) or bytes *)
RECURSIVE LexBody(_, _, _, _, _, _, _)
LexBody(s, i, q, raw, bytes, fmt, acc) ==
    IF i > Len(s) THEN Reject                                     \* unterminated
    ELSE LET c == s[i] IN
      IF c = q THEN (IF i = Len(s) THEN OkLit(IF bytes THEN VBytes(acc) ELSE VStr(acc)) ELSE Unknown)
      ELSE IF c = 92 /\ ~raw THEN
           (IF i + 1 > Len(s) THEN Reject
            ELSE LET e == s[i + 1] IN
              IF e \in DOMAIN SimpleEsc THEN LexBody(s, i + 2, q, raw, bytes, fmt, Append(acc, SimpleEsc[e]))
              ELSE IF e \in {120, 88} THEN
                   LET v == HexRun(s, i + 2, 2, 0) IN
                   IF v < 0 THEN Reject ELSE LexBody(s, i + 4, q, raw, bytes, fmt, Append(acc, v))
              ELSE IF e = 117 /\ ~bytes THEN
                   LET v == HexRun(s, i + 2, 4, 0) IN
                   IF v < 0 \/ ~ValidScalar(v) THEN Reject ELSE LexBody(s, i + 6, q, raw, bytes, fmt, Append(acc, v))
              ELSE IF e = 85 /\ ~bytes THEN
                   LET v == HexRun(s, i + 2, 8, 0) IN
                   IF v < 0 \/ ~ValidScalar(v) THEN Reject ELSE LexBody(s, i + 10, q, raw, bytes, fmt, Append(acc, v))
              ELSE IF IsDigitCp(e) THEN
                   (IF i + 3 > Len(s) THEN Reject
                    ELSE IF ~(IsOctCp(e) /\ IsOctCp(s[i + 2]) /\ IsOctCp(s[i + 3])) THEN Reject
                    ELSE LET v == (e - 48) * 64 + (s[i + 2] - 48) * 8 + (s[i + 3] - 48)
                         IN IF bytes /\ v > 255 THEN Reject
                            ELSE LexBody(s, i + 4, q, raw, bytes, fmt, Append(acc, v)))
              ELSE Unknown)
      ELSE IF fmt /\ c = 123 THEN
           (IF i + 1 <= Len(s) /\ s[i + 1] = 123 THEN LexBody(s, i + 2, q, raw, bytes, fmt, Append(acc, 123)) ELSE Unknown)
      ELSE IF fmt /\ c = 125 THEN
           (IF i + 1 <= Len(s) /\ s[i + 1] = 125 THEN LexBody(s, i + 2, q, raw, bytes, fmt, Append(acc, 125))
            ELSE IF i + 1 > Len(s) THEN Reject ELSE Reject)
      ELSE LexBody(s, i + 1, q, raw, bytes, fmt, IF bytes THEN acc \o EncCp(c) ELSE Append(acc, c))

IsQuote(c) == c = 39 \/ c = 34

(* digits in a base *)
RECURSIVE AllHex(_, _)
AllHex(s, i) == i > Len(s) \/ (IsHexCp(s[i]) /\ AllHex(s, i + 1))
HexDigits(s, from) == [k \in 1..(Len(s) - from + 1) |-> HexVal(s[k + from - 1])]

(* doubles: D* '.' D+ exp? | D+ '.' exp? | D+ exp   (at least one digit; exponent <= 4 digits) *)
FloatDenote(s) ==
    LET i1  == SpanDigits(s, 1)
        hasDot == i1 <= Len(s) /\ s[i1] = 46
        i2  == IF hasDot THEN SpanDigits(s, i1 + 1) ELSE i1
        hasExp == i2 <= Len(s) /\ s[i2] \in {101, 69}
        esgn == IF hasExp /\ i2 + 1 <= Len(s) /\ s[i2 + 1] \in {43, 45} THEN 1 ELSE 0
        i3  == IF hasExp THEN SpanDigits(s, i2 + 1 + esgn) ELSE i2
        nInt == i1 - 1
        nFrac == IF hasDot THEN i2 - i1 - 1 ELSE 0
        nExp == IF hasExp THEN i3 - (i2 + 1 + esgn) ELSE 0
    IN IF ~(hasDot \/ hasExp) \/ i3 # Len(s) + 1 THEN Unknown
       ELSE IF nInt + nFrac = 0 THEN Unknown
       ELSE IF hasExp /\ nExp = 0 THEN Reject                      \* "1e", "1e+"
       ELSE IF nExp > 4 \/ nInt + nFrac > 40 THEN Unknown
       ELSE LET intD  == [k \in 1..nInt |-> s[k] - 48]
                fracD == [k \in 1..nFrac |-> s[i1 + k] - 48]
                expD  == IF hasExp THEN MToNat(MFromDigits([k \in 1..nExp |-> s[i2 + esgn + k] - 48], 10)) ELSE 0
                expV  == IF hasExp /\ esgn = 1 /\ s[i2 + 1] = 45 THEN -expD ELSE expD
                E10   == expV - nFrac
            IN IF E10 > 400 \/ E10 < -400 THEN Unknown
               ELSE OkLit(VDbl(DFromDecimal(FALSE, MFromDigits(intD \o fracD, 10), E10)))

NumDenote(s) ==
    LET n == Len(s)
        uns == s[n] \in {117, 85}
        body == IF uns THEN SubSeq(s, 1, n - 1) ELSE s
        isHex == Len(body) >= 2 /\ body[1] = 48 /\ body[2] \in {120, 88}
    IN IF body = <<>> THEN Unknown
       ELSE IF isHex THEN
            (IF Len(body) = 2 THEN Reject
             ELSE IF ~AllHex(body, 3) THEN Unknown
             ELSE IF Len(body) > 30 THEN Reject
             ELSE LET v == BMk(1, MFromDigits(HexDigits(body, 3), 16))
                  IN IF uns THEN (IF InUintRange(v) THEN OkLit(VUint(v)) ELSE Reject)
                     ELSE (IF InIntRange(v) THEN OkLit(VInt(v)) ELSE Reject))
       ELSE IF AllDigits(body, 1) THEN
            (IF Len(body) > 40 THEN Reject
             ELSE LET v == BMk(1, MFromDigits(CpsToDigits(body, 1), 10))
                  IN IF uns THEN (IF InUintRange(v) THEN OkLit(VUint(v)) ELSE Reject)
                     ELSE (IF InIntRange(v) THEN OkLit(VInt(v)) ELSE Reject))
       ELSE IF uns THEN Unknown
       ELSE FloatDenote(s)

WordTrue == <<116, 114, 117, 101>>
WordFalse == <<102, 97, 108, 115, 101>>
WordNull == <<110, 117, 108, 108>>

LitDenote(s) ==
    IF s = <<>> THEN Unknown
    ELSE IF s = WordTrue THEN OkLit(VTrue) ELSE IF s = WordFalse THEN OkLit(VFalse) ELSE IF s = WordNull THEN OkLit(VNull)
    ELSE IF IsQuote(s[1]) THEN LexBody(s, 2, s[1], FALSE, FALSE, FALSE, <<>>)
    ELSE IF Len(s) >= 2 /\ s[1] = 114 /\ IsQuote(s[2]) THEN LexBody(s, 3, s[2], TRUE, FALSE, FALSE, <<>>)
    ELSE IF Len(s) >= 2 /\ s[1] = 98 /\ IsQuote(s[2]) THEN LexBody(s, 3, s[2], FALSE, TRUE, FALSE, <<>>)
    ELSE IF Len(s) >= 2 /\ s[1] = 102 /\ IsQuote(s[2]) THEN LexBody(s, 3, s[2], FALSE, FALSE, TRUE, <<>>)
    ELSE IF IsDigitCp(s[1]) \/ (s[1] = 46 /\ Len(s) >= 2 /\ IsDigitCp(s[2])) THEN NumDenote(s)
    ELSE Unknown
=============================================================================
