----------------------------- MODULE Builtins -----------------------------
(***************************************************************************)
(* Built-in functions and type constructors of the reference semantics:   *)
(* conversions (C14), size / min / max / sort (C04 C06), strings and math *)
(* (C15, module Strings), time (C16, module Time).                         *)
(* CallBuiltin(f, hasRecv, recv, args) is an abstract outcome; a function *)
(* for which no property gives a meaning on the given shape is AnyOut.       *)
(***************************************************************************)
EXTENDS Time

Digit0 == 48
IsDigitCp(c) == c >= 48 /\ c <= 57
Minus == 45

----------------------------------------------------------------------------
(* UTF-8 *)
EncCp(c) == IF c < 128 THEN <<c>>
            ELSE IF c < 2048 THEN <<192 + (c \div 64), 128 + (c % 64)>>
            ELSE IF c < 65536 THEN <<224 + (c \div 4096), 128 + ((c \div 64) % 64), 128 + (c % 64)>>
            ELSE <<240 + (c \div 262144), 128 + ((c \div 4096) % 64), 128 + ((c \div 64) % 64), 128 + (c % 64)>>
RECURSIVE Utf8Enc(_, _, _)
Utf8Enc(s, i, acc) == IF i > Len(s) THEN acc ELSE Utf8Enc(s, i + 1, acc \o EncCp(s[i]))
IsCont(b) == b >= 128 /\ b < 192
(* [ok |-> BOOLEAN, s |-> code points] *)
RECURSIVE Utf8Dec(_, _, _)
Utf8Dec(b, i, acc) ==
    IF i > Len(b) THEN [ok |-> TRUE, s |-> acc]
    ELSE LET c == b[i]  n == Len(b) IN
      IF c < 128 THEN Utf8Dec(b, i + 1, Append(acc, c))
      ELSE IF c >= 194 /\ c < 224 /\ i + 1 <= n /\ IsCont(b[i + 1])
           THEN Utf8Dec(b, i + 2, Append(acc, (c - 192) * 64 + (b[i + 1] - 128)))
      ELSE IF c >= 224 /\ c < 240 /\ i + 2 <= n /\ IsCont(b[i + 1]) /\ IsCont(b[i + 2])
           THEN LET cp == (c - 224) * 4096 + (b[i + 1] - 128) * 64 + (b[i + 2] - 128)
                IN IF cp >= 2048 /\ ~(cp >= 55296 /\ cp <= 57343) THEN Utf8Dec(b, i + 3, Append(acc, cp))
                   ELSE [ok |-> FALSE, s |-> <<>>]
      ELSE IF c >= 240 /\ c < 245 /\ i + 3 <= n /\ IsCont(b[i + 1]) /\ IsCont(b[i + 2]) /\ IsCont(b[i + 3])
           THEN LET cp == (c - 240) * 262144 + (b[i + 1] - 128) * 4096 + (b[i + 2] - 128) * 64 + (b[i + 3] - 128)
                IN IF cp >= 65536 /\ cp <= 1114111 THEN Utf8Dec(b, i + 4, Append(acc, cp))
                   ELSE [ok |-> FALSE, s |-> <<>>]
      ELSE [ok |-> FALSE, s |-> <<>>]

----------------------------------------------------------------------------
(* decimal text *)
DigitsToCps(ds) == [i \in 1..Len(ds) |-> 48 + ds[i]]
BigToCps(n) == IF n.s < 0 THEN <<Minus>> \o DigitsToCps(MDigits(n.m)) ELSE DigitsToCps(MDigits(n.m))
AllDigits(s, from) == from <= Len(s) /\ \A i \in from..Len(s) : IsDigitCp(s[i])
CpsToDigits(s, from) == [i \in 1..(Len(s) - from + 1) |-> s[i + from - 1] - 48]
(* -?[0-9]+ *)
IsCanonInt(s) == IF Len(s) >= 1 /\ s[1] = Minus THEN AllDigits(s, 2) ELSE AllDigits(s, 1)
CanonIntVal(s) == IF s[1] = Minus THEN BMk(-1, MFromDigits(CpsToDigits(s, 2), 10))
                  ELSE BMk(1, MFromDigits(CpsToDigits(s, 1), 10))
(* characters that can occur in sloppy numeric spellings: such text is neither required to  *)
(* parse nor required to be rejected                                                          *)
NumericishCp(c) == IsDigitCp(c) \/ c \in {43, 45, 32, 9, 46, 101, 69, 95, 10, 13}
LowerCp(c) == IF c >= 65 /\ c <= 90 THEN c + 32 ELSE c
WordsInfNan == { <<105,110,102>>, <<110,97,110>>, <<105,110,102,105,110,105,116,121>> }
IsInfNanWord(s) == LET body == IF Len(s) >= 1 /\ s[1] \in {43, 45} THEN SubSeq(s, 2, Len(s)) ELSE s
                   IN [i \in 1..Len(body) |-> LowerCp(body[i])] \in WordsInfNan
Numericish(s) == \/ (Len(s) > 0 /\ (\A i \in 1..Len(s) : NumericishCp(s[i])) /\ (\E i \in 1..Len(s) : IsDigitCp(s[i])))
                 \/ IsInfNanWord(s)

(* canonical decimal floating spelling:  -?D+(.D+)?([eE][-+]?D+)?   ->  [ok, neg, D (magnitude), E10] *)
RECURSIVE SpanDigits(_, _)
SpanDigits(s, i) == IF i <= Len(s) /\ IsDigitCp(s[i]) THEN SpanDigits(s, i + 1) ELSE i
ParseDecimal(s) ==
    LET neg == Len(s) >= 1 /\ s[1] = Minus
        i0  == IF neg THEN 2 ELSE 1
        i1  == SpanDigits(s, i0)                        \* end of integer digits
        hasFrac == i1 <= Len(s) /\ s[i1] = 46
        i2  == IF hasFrac THEN SpanDigits(s, i1 + 1) ELSE i1
        hasExp == i2 <= Len(s) /\ s[i2] \in {101, 69}
        esgn == IF hasExp /\ i2 + 1 <= Len(s) /\ s[i2 + 1] \in {43, 45} THEN 1 ELSE 0
        i3  == IF hasExp THEN SpanDigits(s, i2 + 1 + esgn) ELSE i2
        okShape == /\ i1 > i0
                   /\ (hasFrac => i2 > i1 + 1)
                   /\ (hasExp => i3 > i2 + 1 + esgn /\ i3 - (i2 + 1 + esgn) <= 4)
                   /\ i3 = Len(s) + 1
        intD  == [k \in 1..(i1 - i0) |-> s[i0 + k - 1] - 48]
        fracD == IF hasFrac THEN [k \in 1..(i2 - i1 - 1) |-> s[i1 + k] - 48] ELSE <<>>
        expD  == IF hasExp THEN MToNat(MFromDigits([k \in 1..(i3 - (i2 + 1 + esgn)) |-> s[i2 + esgn + k] - 48], 10)) ELSE 0
        expV  == IF hasExp /\ esgn = 1 /\ s[i2 + 1] = 45 THEN -expD ELSE expD
    IN IF ~okShape THEN [ok |-> FALSE]
       ELSE [ok |-> TRUE, neg |-> neg, D |-> MFromDigits(intD \o fracD, 10), E |-> expV - Len(fracD)]

----------------------------------------------------------------------------
(* conversions (C14) *)
Clamp(n, lo, hi) == IF BCmp(n, lo) < 0 THEN lo ELSE IF BCmp(n, hi) > 0 THEN hi ELSE n

ConvInt(v) ==
    CASE v.t = "int"  -> Ok(v)
      [] v.t = "uint" -> IF BCmp(v.n, IntMax) <= 0 THEN Ok(VInt(v.n)) ELSE Err("other")
      [] v.t = "bool" -> Ok(VInt(IF v.b THEN BOne ELSE BZero))
      [] v.t = "dbl"  -> LET d == DOf(v) IN
                         IF DIsNaN(d) THEN AnyOut
                         ELSE IF DIsInf(d) THEN Ok(VInt(IF d.neg THEN IntMin ELSE IntMax))
                         ELSE Ok(VInt(Clamp(DTrunc(d), IntMin, IntMax)))
      [] v.t = "str"  -> IF IsCanonInt(v.s)
                         THEN LET n == CanonIntVal(v.s) IN IF InIntRange(n) THEN Ok(VInt(n)) ELSE Err("other")
                         ELSE IF Numericish(v.s) THEN AnyOut ELSE Err("other")
      [] v.t = "ts"   -> AnyOut
      [] OTHER        -> Err("other")

ConvUint(v) ==
    CASE v.t = "uint" -> Ok(v)
      [] v.t = "int"  -> IF v.n.s >= 0 THEN Ok(VUint(v.n)) ELSE Err("other")
      [] v.t = "bool" -> Ok(VUint(IF v.b THEN BOne ELSE BZero))
      [] v.t = "dbl"  -> LET d == DOf(v) IN
                         IF DIsNaN(d) THEN AnyOut
                         ELSE IF DIsInf(d) THEN (IF d.neg THEN Opt(VUint(BZero)) ELSE Ok(VUint(UIntMax)))
                         ELSE LET t == DTrunc(d)
                              IN IF d.neg /\ ~DIsZero(d) THEN Opt(VUint(BZero)) ELSE Ok(VUint(Clamp(t, BZero, UIntMax)))
      [] v.t = "str"  -> IF IsCanonInt(v.s)
                         THEN LET n == CanonIntVal(v.s) IN IF InUintRange(n) /\ v.s[1] # Minus THEN Ok(VUint(n)) ELSE Err("other")
                         ELSE IF Numericish(v.s) THEN AnyOut ELSE Err("other")
      [] OTHER        -> Err("other")

ConvDouble(v) ==
    CASE v.t = "dbl"  -> Ok(v)
      [] v.t \in {"int", "uint", "bool"} -> Ok(VDbl(DFromBig(NumOf(v))))
      [] v.t = "str"  -> LET p == ParseDecimal(v.s) IN
                         IF p.ok THEN (IF p.E > -800 /\ p.E < 400 /\ Len(v.s) < 900 THEN Ok(VDbl(DFromDecimal(p.neg, p.D, p.E))) ELSE AnyOut)
                         ELSE IF Numericish(v.s) THEN AnyOut ELSE Err("other")
      [] OTHER        -> Err("other")

ConvString(v) ==
    CASE v.t = "str"   -> Ok(v)
      [] v.t \in {"int", "uint"} -> Ok(VStr(BigToCps(v.n)))
      [] v.t = "bytes" -> LET d == Utf8Dec(v.s, 1, <<>>) IN IF d.ok THEN Ok(VStr(d.s)) ELSE Err("other")
      [] OTHER         -> AnyOut

ConvBytes(v) ==
    CASE v.t = "bytes" -> Ok(v)
      [] v.t = "str"   -> Ok(VBytes(Utf8Enc(v.s, 1, <<>>)))
      [] OTHER         -> AnyOut

Cps(str) == str   \* documentation only: code point sequences are written as tuples
BoolSpellTrue  == { <<49>>, <<116>>, <<116,114,117,101>>, <<84,82,85,69>>, <<84,114,117,101>> }
BoolSpellFalse == { <<48>>, <<102>>, <<102,97,108,115,101>>, <<70,65,76,83,69>>, <<70,97,108,115,101>> }
ConvBool(v) ==
    IF v.t = "str" THEN (IF v.s \in BoolSpellTrue THEN Ok(VTrue)
                         ELSE IF v.s \in BoolSpellFalse THEN Ok(VFalse)
                         ELSE Ok(VBool(Truthy(v))))
    ELSE Ok(VBool(Truthy(v)))

ConvType(v) == Ok(VType(TypeOf(v)))

----------------------------------------------------------------------------
(* min / max / sort under the one order (C04) *)
Comparable(xs) == \A i, j \in 1..Len(xs) : LET o == Ord(xs[i], xs[j]) IN o.k = "ord" /\ o.c # "un"
RECURSIVE Least(_, _, _, _)
Least(xs, i, best, wantGt) ==
    IF i > Len(xs) THEN best
    ELSE LET c == Ord(xs[i], best).c
         IN Least(xs, i + 1, IF (wantGt /\ c = "gt") \/ (~wantGt /\ c = "lt") THEN xs[i] ELSE best, wantGt)
MinMax(xs, wantGt) == IF Len(xs) = 0 THEN Err("other")
                      ELSE IF Comparable(xs) THEN Ok(Least(xs, 2, xs[1], wantGt)) ELSE AnyOut
(* a list is sorted if adjacent elements are not decreasing; a sort result is checked as a law *)
IsSorted(xs) == \A i \in 1..(Len(xs) - 1) : Ord(xs[i], xs[i + 1]).c \in {"lt", "eq"}
RECURSIVE RemoveOne(_, _, _)
RemoveOne(xs, x, i) == IF i > Len(xs) THEN [ok |-> FALSE]
                       ELSE IF xs[i] = x THEN [ok |-> TRUE, s |-> SubSeq(xs, 1, i - 1) \o SubSeq(xs, i + 1, Len(xs))]
                       ELSE RemoveOne(xs, x, i + 1)
RECURSIVE IsPerm(_, _)
IsPerm(xs, ys) == IF Len(xs) # Len(ys) THEN FALSE
                  ELSE IF xs = <<>> THEN TRUE
                  ELSE LET r == RemoveOne(ys, xs[1], 1) IN r.ok /\ IsPerm(Tail(xs), r.s)
(* insertion sort, stable: the unique answer when equal elements are identical *)
RECURSIVE InsertSorted(_, _, _)
InsertSorted(acc, x, i) == IF i > Len(acc) THEN Append(acc, x)
                           ELSE IF Ord(x, acc[i]).c = "lt" THEN SubSeq(acc, 1, i - 1) \o <<x>> \o SubSeq(acc, i, Len(acc))
                           ELSE InsertSorted(acc, x, i + 1)
RECURSIVE SortAcc(_, _, _)
SortAcc(xs, i, acc) == IF i > Len(xs) THEN acc ELSE SortAcc(xs, i + 1, InsertSorted(acc, xs[i], 1))
EqualImpliesIdentical(xs) == \A i, j \in 1..Len(xs) : Ord(xs[i], xs[j]).c = "eq" => xs[i] = xs[j]
Sort(v) == IF v.t # "list" THEN Err("other")
           ELSE IF ~Comparable(v.s) THEN AnyOut
           ELSE IF EqualImpliesIdentical(v.s) THEN Ok(VList(SortAcc(v.s, 1, <<>>)))
           ELSE AnyOut

----------------------------------------------------------------------------
BuiltinNames == {"size", "sort", "min", "max",
                 "contains", "containsI", "startsWith", "endsWith", "startsWithI", "endsWithI",
                 "matches", "matchCaptures", "matchReplaceOnce", "matchReplace", "toLower", "toUpper",
                 "remove", "replace", "rsplit", "split", "splitAt", "trim", "trimStart", "trimStartMatches",
                 "trimEnd", "trimEndMatches", "splitWhiteSpace",
                 "abs", "sqrt", "pow", "log", "lg", "ceil", "floor", "round",
                 "getDate", "getDayOfMonth", "getDayOfWeek", "getDayOfYear", "getFullYear", "getHours",
                 "getMilliseconds", "getMinutes", "getMonth", "getSeconds", "now", "zip", "uomConvert"}

(* string functions: method form  s.f(args)  with string arguments *)
StrArgs(args, k) == Len(args) = k /\ \A i \in 1..Len(args) : args[i].t = "str"
ListOfStr(ps) == VList([i \in 1..Len(ps) |-> VStr(ps[i])])
StringFunc(f, recv, args) ==
    IF recv.t # "str" THEN Err("other")
    ELSE LET s == recv.s IN
    CASE f \in {"contains", "startsWith", "endsWith", "containsI", "startsWithI", "endsWithI"} ->
           IF ~StrArgs(args, 1) THEN Err("other")
           ELSE LET n == args[1].s
                    ci == f \in {"containsI", "startsWithI", "endsWithI"}
                IN IF ci /\ ~(AllCaseKnown(s) /\ AllCaseKnown(n)) THEN AnyOut
                   ELSE LET a == IF ci THEN ToLower(s) ELSE s
                            b == IF ci THEN ToLower(n) ELSE n
                        IN Ok(VBool(CASE f \in {"contains", "containsI"} -> IsSubstring(b, a)
                                      [] f \in {"startsWith", "startsWithI"} -> StartsWith(a, b)
                                      [] OTHER -> EndsWith(a, b)))
      [] f \in {"split", "rsplit"} ->
           IF ~StrArgs(args, 1) THEN Err("other")
           ELSE IF args[1].s = <<>> THEN AnyOut
           ELSE Ok(ListOfStr(IF f = "split" THEN SplitLeft(s, args[1].s) ELSE SplitRight(s, args[1].s)))
      [] f = "replace" ->
           IF ~StrArgs(args, 2) THEN Err("other")
           ELSE IF args[1].s = <<>> THEN AnyOut ELSE Ok(VStr(ReplaceAll(s, args[1].s, args[2].s)))
      [] f = "remove" ->
           IF ~StrArgs(args, 1) THEN Err("other")
           ELSE IF args[1].s = <<>> THEN AnyOut ELSE Ok(VStr(ReplaceAll(s, args[1].s, <<>>)))
      [] f = "trim" -> IF Len(args) # 0 THEN Err("other") ELSE Ok(VStr(TrimEndWs(TrimStartWs(s))))
      [] f = "trimStart" -> IF Len(args) # 0 THEN Err("other") ELSE Ok(VStr(TrimStartWs(s)))
      [] f = "trimEnd" -> IF Len(args) # 0 THEN Err("other") ELSE Ok(VStr(TrimEndWs(s)))
      [] f = "trimStartMatches" ->
           IF ~StrArgs(args, 1) THEN Err("other") ELSE IF args[1].s = <<>> THEN AnyOut ELSE Ok(VStr(StripPrefix(s, args[1].s)))
      [] f = "trimEndMatches" ->
           IF ~StrArgs(args, 1) THEN Err("other") ELSE IF args[1].s = <<>> THEN AnyOut ELSE Ok(VStr(StripSuffix(s, args[1].s)))
      [] f = "splitWhiteSpace" -> IF Len(args) # 0 THEN Err("other") ELSE Ok(ListOfStr(Words(s, 1, <<>>, <<>>)))
      [] f \in {"toLower", "toUpper"} ->
           IF Len(args) # 0 THEN Err("other")
           ELSE IF ~AllCaseKnown(s) THEN AnyOut
           ELSE Ok(VStr(IF f = "toLower" THEN ToLower(s) ELSE ToUpper(s)))
      [] f = "splitAt" ->
           IF Len(args) # 1 THEN Err("other")
           ELSE IF args[1].t # "int" THEN (IF args[1].t = "uint" THEN AnyOut ELSE Err("other"))
           ELSE IF args[1].n.s < 0 \/ ~BFitsInt(args[1].n) THEN Err("other")
           ELSE LET k == PrefixOfBytes(s, 1, BToInt(args[1].n))
                IN IF k < 0 THEN Err("other")
                   ELSE Ok(ListOfStr(<<SubSeq(s, 1, k), SubSeq(s, k + 1, Len(s))>>))
      [] f \in {"matches", "matchCaptures"} -> IF ~StrArgs(args, 1) THEN Err("other") ELSE AnyOut    \* decided by the regex laws
      [] f \in {"matchReplace", "matchReplaceOnce"} -> IF ~StrArgs(args, 2) THEN Err("other") ELSE AnyOut
      [] OTHER -> AnyOut
StringFuncNames == {"contains", "containsI", "startsWith", "endsWith", "startsWithI", "endsWithI", "split", "rsplit", "replace", "remove",
                    "trim", "trimStart", "trimEnd", "trimStartMatches", "trimEndMatches", "splitWhiteSpace", "toLower", "toUpper", "splitAt",
                    "matches", "matchCaptures", "matchReplace", "matchReplaceOnce"}

(* math: one numeric argument (or receiver); pow: two *)
SatInt(n) == IF InIntRange(n) THEN Ok(VInt(n)) ELSE Opt(VInt(Clamp(n, IntMin, IntMax)))
PowInt(b, e, rt) ==      \* b, e Big; result type rt
    IF e.s < 0 THEN Err("other")
    ELSE IF BCmp(BAbs(b), BOne) <= 0
         THEN (IF b.s = 0 THEN (IF e.s = 0 THEN Ok([t |-> rt, n |-> BOne]) ELSE Ok([t |-> rt, n |-> BZero]))
               ELSE IF b.s > 0 THEN Ok([t |-> rt, n |-> BOne])
               ELSE Ok([t |-> rt, n |-> IF e.s = 0 \/ MIsEven(e.m) THEN BOne ELSE BNeg(BOne)]))
    ELSE IF ~BFitsInt(e) \/ BToInt(e) > 64 THEN Err("other")
    ELSE LET m == MPow(b.m, BToInt(e))
             r == BMk(IF b.s < 0 /\ BToInt(e) % 2 = 1 THEN -1 ELSE 1, m)
         IN IF (rt = "int" /\ InIntRange(r)) \/ (rt = "uint" /\ InUintRange(r)) THEN Ok([t |-> rt, n |-> r]) ELSE Err("other")
MathFunc(f, all) ==
    LET n == Len(all) IN
    CASE f = "abs" -> IF n # 1 THEN Err("other")
                      ELSE (CASE all[1].t = "int" -> (IF InIntRange(BAbs(all[1].n)) THEN Ok(VInt(BAbs(all[1].n))) ELSE Err("other"))
                              [] all[1].t = "uint" -> Ok(all[1])
                              [] all[1].t = "dbl" -> Ok(VDbl(DAbs(DOf(all[1]))))
                              [] OTHER -> Err("other"))
      [] f = "sqrt" -> IF n # 1 THEN Err("other")
                       ELSE IF all[1].t \in {"int", "uint", "dbl"} THEN Ok(VDbl(DSqrt(ToDbl(all[1])))) ELSE Err("other")
      [] f \in {"log", "lg"} ->
             IF n # 1 THEN Err("other")
             ELSE (CASE all[1].t \in {"int", "uint"} ->
                          (IF all[1].n.s <= 0 THEN Err("other")
                           ELSE Ok([t |-> all[1].t, n |-> BFromInt(ILog(all[1].n.m, IF f = "log" THEN <<10>> ELSE <<2>>, 0))]))
                     [] all[1].t = "dbl" -> AnyOut
                     [] OTHER -> Err("other"))
      [] f \in {"ceil", "floor", "round"} ->
             IF n # 1 THEN Err("other")
             ELSE (CASE all[1].t \in {"int", "uint"} -> Ok(all[1])
                     [] all[1].t = "dbl" ->
                          LET d == DOf(all[1]) IN
                          IF DIsNaN(d) THEN AnyOut
                          ELSE IF DIsInf(d) THEN Opt(VInt(IF d.neg THEN IntMin ELSE IntMax))
                          ELSE SatInt(IF f = "ceil" THEN DCeil(d) ELSE IF f = "floor" THEN DFloor(d) ELSE DRoundHalfAway(d))
                     [] OTHER -> Err("other"))
      [] f = "pow" ->
             IF n # 2 THEN Err("other")
             ELSE IF all[1].t \in {"int", "uint"} /\ all[2].t \in {"int", "uint"} THEN PowInt(all[1].n, all[2].n, all[1].t)
             \* an integer base has no power for an exponent that is not a number or is negative
             ELSE IF all[1].t \in {"int", "uint"} /\ all[2].t = "dbl" /\ (DIsNaN(DOf(all[2])) \/ (DOf(all[2]).neg /\ ~DIsZero(DOf(all[2])))) THEN Err("other")
             ELSE IF all[1].t \in {"int", "uint", "dbl"} /\ all[2].t \in {"int", "uint", "dbl"} THEN AnyOut
             ELSE Err("other")
      [] OTHER -> AnyOut
MathFuncNames == {"abs", "sqrt", "log", "lg", "ceil", "floor", "round", "pow"}

(* time (C16) *)
HasDigit(s) == \E i \in 1..Len(s) : IsDigitCp(s[i])
TimeAccessor(f, recv, args) ==
    IF recv.t = "ts" THEN
       (IF Len(args) = 0 THEN Ok(VInt(BFromInt(TsAccessor(f, recv.ns, 0))))
        ELSE IF Len(args) = 1 /\ args[1].t = "str" THEN (IF args[1].s = UTCName THEN Ok(VInt(BFromInt(TsAccessor(f, recv.ns, 0)))) ELSE AnyOut)
        ELSE Err("other"))
    ELSE IF recv.t = "dur" /\ f \in DurAccessorNames THEN (IF Len(args) = 0 THEN Ok(VInt(DurAccessor(f, recv.ns))) ELSE Err("other"))
    ELSE Err("other")
ConvTimestamp(args) ==
    IF Len(args) = 0 THEN AnyOut
    ELSE IF Len(args) # 1 THEN Err("other")
    ELSE LET v == args[1] IN
      CASE v.t = "ts" -> Ok(v)
        [] v.t \in {"int", "uint"} -> TsResult(BMul(v.n, [s |-> 1, m |-> NsPerSec]))
        [] v.t = "str" -> LET p == ParseRfc3339(v.s) IN IF p.ok THEN TsResult(p.ns) ELSE IF HasDigit(v.s) THEN AnyOut ELSE Err("other")
        [] OTHER -> Err("other")
ConvDuration(args) ==
    IF Len(args) = 1 THEN
       (CASE args[1].t = "dur" -> Ok(args[1])
          [] args[1].t = "int" -> DurResult(BMul(args[1].n, [s |-> 1, m |-> NsPerSec]))
          [] args[1].t = "str" -> IF HasDigit(args[1].s) THEN AnyOut ELSE Err("other")
          [] OTHER -> Err("other"))
    ELSE IF Len(args) = 2 /\ args[1].t = "int" /\ args[2].t = "int" THEN
       (IF args[2].n.s >= 0 /\ BCmp(args[2].n, [s |-> 1, m |-> NsPerSec]) < 0
        THEN DurResult(BAdd(BMul(args[1].n, [s |-> 1, m |-> NsPerSec]), args[2].n)) ELSE AnyOut)
    ELSE Err("other")

CallBuiltin(f, hasRecv, recv, args) ==
    LET all == IF hasRecv THEN <<recv>> \o args ELSE args
        n   == Len(all)
    IN CASE f \in TsAccessorNames -> IF hasRecv THEN TimeAccessor(f, recv, args) ELSE AnyOut
         [] f = "timestamp" -> IF hasRecv THEN AnyOut ELSE ConvTimestamp(args)
         [] f = "duration" -> IF hasRecv THEN AnyOut ELSE ConvDuration(args)
         [] f \in StringFuncNames -> IF hasRecv THEN StringFunc(f, recv, args) ELSE AnyOut
         [] f \in MathFuncNames -> IF hasRecv THEN AnyOut ELSE MathFunc(f, all)      \* documented as functions, not methods
         [] f = "size"   -> IF n = 1 THEN Size(all[1]) ELSE Err("other")
         [] f = "int"    -> IF hasRecv THEN AnyOut ELSE IF n = 1 THEN ConvInt(all[1]) ELSE Err("other")
         [] f = "uint"   -> IF hasRecv THEN AnyOut ELSE IF n = 1 THEN ConvUint(all[1]) ELSE Err("other")
         [] f \in {"double", "float"} -> IF hasRecv THEN AnyOut ELSE IF n = 1 THEN ConvDouble(all[1]) ELSE Err("other")
         [] f = "string" -> IF hasRecv THEN AnyOut ELSE IF n = 1 THEN ConvString(all[1]) ELSE Err("other")
         [] f = "bytes"  -> IF hasRecv THEN AnyOut ELSE IF n = 1 THEN ConvBytes(all[1]) ELSE Err("other")
         [] f = "bool"   -> IF hasRecv THEN AnyOut ELSE IF n = 1 THEN ConvBool(all[1]) ELSE Err("other")
         [] f = "type"   -> IF hasRecv THEN AnyOut ELSE IF n = 1 THEN ConvType(all[1]) ELSE Err("other")
         [] f = "dyn"    -> IF hasRecv THEN AnyOut ELSE IF n = 1 THEN Ok(all[1]) ELSE Err("other")
         [] f = "min"    -> IF hasRecv THEN AnyOut ELSE MinMax(args, FALSE)
         [] f = "max"    -> IF hasRecv THEN AnyOut ELSE MinMax(args, TRUE)
         [] f = "sort"   -> IF ~hasRecv THEN AnyOut ELSE IF n = 1 THEN Sort(all[1]) ELSE Err("other")
         [] OTHER        -> AnyOut
=============================================================================
