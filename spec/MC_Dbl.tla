------------------------------ MODULE MC_Dbl ------------------------------
(* Self-check of Dbl against vectors produced by the hardware (bin/dblvec.py). *)
EXTENDS Dbl, TLC, Json, IOUtils
Vec == ndJsonDeserialize(IOEnv.VEC)
VARIABLE i
Init == i = 1
Next == i < Len(Vec) /\ i' = i + 1
N(d) == [neg |-> d.neg, e |-> d.e, m |-> d.m]
R == Vec[i]
OkAdd == DAdd(N(R.a), N(R.b)) = N(R.add)
OkSub == DSub(N(R.a), N(R.b)) = N(R.sub)
OkMul == DMul(N(R.a), N(R.b)) = N(R.mul)
OkDiv == DDiv(N(R.a), N(R.b)) = N(R.div)
OkCmp == DCmp(N(R.a), N(R.b)) = R.cmp
OkConv == DFromBig(R.k) = N(R.kd)
OkInt == "trunc" \in DOMAIN R =>
           /\ DTrunc(N(R.a)) = R.trunc /\ DFloor(N(R.a)) = R.floor /\ DCeil(N(R.a)) = R.ceil
           /\ DRoundHalfAway(N(R.a)) = R.round
OkDec == "dec" \in DOMAIN R =>
           /\ DIsNearestDecimal(N(R.a), R.dec.D, R.dec.E)
           /\ (R.dec.E > -40 /\ R.dec.E < 40 => DFromDecimal(R.a.neg, R.dec.D, R.dec.E) = N(R.a))
=============================================================================
