---------------------------- MODULE Trace_Eval ----------------------------
(***************************************************************************)
(* Trace validation of recorded evaluations (implementation -> spec).     *)
(* Every line of the recording is one case: the abstract inputs (tree,    *)
(* bindings, stored programs, instrumented functions) and, per form in    *)
(* which the harness ran it (bound / literal / mixed / json / re-         *)
(* parenthesised ...), the observed outcome and call log.  The            *)
(* specification evaluates the same inputs and every observation must be  *)
(* an outcome it allows.  One state per line; a mismatch never blocks.    *)
(***************************************************************************)
EXTENDS Eval, TLC, Json, IOUtils

Rec == ndJsonDeserialize(IOEnv.TRACE)

VARIABLES l, nbad, nsingle, nany
vars == <<l, nbad, nsingle, nany>>

Fld(r, f) == IF f \in DOMAIN r THEN r[f] ELSE <<>>
(* an evaluation that ran out of depth somewhere may have been aborted as a whole *)
Expect(r) == LET e == Eval(r.tree, Env0(Fld(r, "bind"), Fld(r, "progs"), Fld(r, "funcs")))
             IN IF \E i \in 1..Len(e.log) : e.log[i] = "#depth" THEN [o |-> Weaken(e.o), log |-> <<>>, lk |-> FALSE] ELSE e

(* C01 runs the same recordings with ONLYCRASH=1: there only totality is demanded (a value or an error) *)
OnlyCrash == "ONLYCRASH" \in DOMAIN IOEnv /\ IOEnv.ONLYCRASH = "1"

(* laws that hold even where the outcome is not unique: a sort result is an ordered permutation (C04) *)
SortLaw(r, ob) ==
    LET t == r.tree IN
    (~OnlyCrash /\ t.k = "mcall" /\ t.f = "sort" /\ Len(t.args) = 0 /\ t.r.k = "id" /\ t.r.n \in DOMAIN Fld(r, "bind"))
      => LET v == r.bind[t.r.n] IN
         (v.t = "list" /\ Comparable(v.s))
           => (ob.out.o = "ok" /\ ob.out.v.t = "list" /\ IsSorted(ob.out.v.s) /\ IsPerm(v.s, ob.out.v.s))

(* laws attached to a case by its generator (the defining equations of C14) *)
LawOf(r) == IF "extra" \in DOMAIN r /\ "law" \in DOMAIN r.extra THEN r.extra.law ELSE "none"
LawOk(r, ob) ==
    LET law == LawOf(r) IN
    CASE law = "istrue" -> ob.out.o = "ok" /\ ob.out.v = VTrue
      [] law = "true-or-err" -> (ob.out.o = "ok" /\ ob.out.v = VTrue) \/ ob.out.o = "err"
      [] law = "istrue-or-arith-err" -> (ob.out.o = "ok" /\ ob.out.v = VTrue) \/ ob.out.o = "err"
      [] law = "rematch" -> ob.out.o = "ok" /\ ob.out.v = VBool(ReSearch(r.extra.re, r.bind.s.s))
      [] law = "reerr" -> ob.out.o = "err"
      [] law = "cycle" -> ob.out.o = "err"      \* the generator built a reference cycle that evaluation must enter (C12): it ends in an error
      [] law = "recapture" ->
            IF ReSearch(r.extra.re, r.bind.s.s)
            THEN /\ ob.out.o = "ok" /\ ob.out.v.t = "list" /\ Len(ob.out.v.s) >= 1 /\ ob.out.v.s[1].t = "str"
                 /\ IsSubstring(ob.out.v.s[1].s, r.bind.s.s) /\ ReFull(r.extra.re, ob.out.v.s[1].s)
            ELSE ob.out.o = "ok" /\ ob.out.v = VNull
      [] law = "tz" ->        \* a zone accessor: the driver supplied the zone's offset at that instant (seconds)
            ob.out.o = "ok" /\ ob.out.v = VInt(BFromInt(TsAccessor(r.tree.f, r.bind.t.ns, r.extra.off)))
      [] law = "uom" ->       \* agreement with the exact unit definitions within 1e-6 relative
            /\ ob.out.o = "ok" /\ ob.out.v.t = "dbl" /\ DIsFinite(DOf(ob.out.v))
            /\ WithinTol(DOf(ob.out.v), ToDbl(r.bind.x), UnitTable[r.extra.ua].f, UnitTable[r.extra.ub].f, 6)
            /\ DOf(ob.out.v).neg = ToDbl(r.bind.x).neg
      [] law = "dblstr" -> ob.out.o = "ok" /\ ob.out.v.t = "str" /\ ConvDouble(ob.out.v) = Ok(r.bind.x)
      [] OTHER -> TRUE

(* cases marked "same": every form must give one and the same outcome (C07: one fixed map order) *)
SameLaw(r) == ("extra" \in DOMAIN r /\ "same" \in DOMAIN r.extra) => \A i, j \in 1..Len(r.obs) : r.obs[i].out = r.obs[j].out

ObsOk(ob, e) == IF OnlyCrash THEN ob.out.o \in {"ok", "err"} ELSE
                /\ Matches(ob.out, e.o)
                /\ (e.lk /\ "log" \in DOMAIN ob => ob.log = e.log)
                /\ ("bind_ok" \in DOMAIN ob => ob.bind_ok)

Init == l = 1 /\ nbad = 0 /\ nsingle = 0 /\ nany = 0
Step == /\ l <= Len(Rec)
        /\ LET r == Rec[l]
               e == Expect(r)
               badObs == {i \in 1..Len(r.obs) : ~ObsOk(r.obs[i], e) \/ ~SortLaw(r, r.obs[i]) \/ (i = 1 /\ ~SameLaw(r)) \/ (~OnlyCrash /\ ~LawOk(r, r.obs[i]))}
           IN /\ nbad' = nbad + Cardinality(badObs)
              /\ nsingle' = nsingle + (IF e.o.o \in {"ok", "err"} /\ (e.o.o = "err" => e.o.c # "either") THEN 1 ELSE 0)
              /\ nany' = nany + (IF e.o.o = "any" THEN 1 ELSE 0)
              /\ \A i \in badObs :
                    PrintT(<<"VERDICT", r.id, r.obs[i].form,
                             ToJson([allowed |-> e.o, log |-> e.log, lk |-> e.lk]),
                             ToJson([out |-> r.obs[i].out, log |-> Fld(r.obs[i], "log")])>>)
        /\ l' = l + 1
Done == /\ l = Len(Rec) + 1
        /\ PrintT(<<"SUMMARY", Len(Rec), nbad, nsingle, nany>>)
        /\ l' = l + 1
        /\ UNCHANGED <<nbad, nsingle, nany>>
Next == Step \/ Done
Spec == Init /\ [][Next]_vars
Accepted == TLCGet("stats").diameter = Len(Rec) + 2
=============================================================================
