------------------------------- MODULE Big -------------------------------
(***************************************************************************)
(* Exact integers of unbounded size for TLC (whose own integers are 32    *)
(* bit).  A number is [s |-> sign, m |-> magnitude] where the magnitude   *)
(* is a little-endian sequence of limbs in base 2^15 without trailing     *)
(* zero limbs; zero is [s |-> 0, m |-> <<>>].  This is the number          *)
(* representation shared with the harness (JSON: {"s":..,"m":[..]}).      *)
(*                                                                         *)
(* Everything rscel computes on int64 / uint64 / f64 / nanoseconds is     *)
(* specified on top of these operators, so the reference semantics is     *)
(* exact and width-generic.                                                *)
(***************************************************************************)
EXTENDS Integers, Sequences

BASE == 32768
LB   == 15

IMax(a, b) == IF a > b THEN a ELSE b
IMin(a, b) == IF a < b THEN a ELSE b

----------------------------------------------------------------------------
(* magnitudes *)

Limb(m, i) == IF i <= Len(m) THEN m[i] ELSE 0

RECURSIVE MNormAt(_, _)
MNormAt(m, n) == IF n = 0 THEN <<>>
                 ELSE IF m[n] # 0 THEN (IF n = Len(m) THEN m ELSE SubSeq(m, 1, n))
                 ELSE MNormAt(m, n - 1)
MNorm(m) == MNormAt(m, Len(m))

RECURSIVE MAddC(_, _, _, _, _, _)
MAddC(a, b, n, i, c, acc) ==
    IF i > n THEN (IF c = 0 THEN acc ELSE Append(acc, c))
    ELSE LET s == Limb(a, i) + Limb(b, i) + c
         IN MAddC(a, b, n, i + 1, s \div BASE, Append(acc, s % BASE))
MAdd(a, b) == IF a = <<>> THEN b ELSE IF b = <<>> THEN a
              ELSE MAddC(a, b, IMax(Len(a), Len(b)), 1, 0, <<>>)

RECURSIVE MCmpAt(_, _, _)
MCmpAt(a, b, i) == IF i = 0 THEN 0
                   ELSE IF a[i] < b[i] THEN -1
                   ELSE IF a[i] > b[i] THEN 1
                   ELSE MCmpAt(a, b, i - 1)
(* both normalised *)
MCmp(a, b) == IF Len(a) < Len(b) THEN -1 ELSE IF Len(a) > Len(b) THEN 1 ELSE MCmpAt(a, b, Len(a))

RECURSIVE MSubC(_, _, _, _, _)
MSubC(a, b, i, c, acc) ==
    IF i > Len(a) THEN acc
    ELSE LET s == a[i] - Limb(b, i) - c
         IN IF s < 0 THEN MSubC(a, b, i + 1, 1, Append(acc, s + BASE))
                     ELSE MSubC(a, b, i + 1, 0, Append(acc, s))
(* requires a >= b *)
MSub(a, b) == IF b = <<>> THEN a ELSE MNorm(MSubC(a, b, 1, 0, <<>>))

RECURSIVE MMulLimbC(_, _, _, _, _)
MMulLimbC(a, d, i, c, acc) ==
    IF i > Len(a) THEN (IF c = 0 THEN acc ELSE Append(acc, c))
    ELSE LET p == a[i] * d + c
         IN MMulLimbC(a, d, i + 1, p \div BASE, Append(acc, p % BASE))
(* 0 <= d < BASE *)
MMulLimb(a, d) == IF d = 0 \/ a = <<>> THEN <<>> ELSE IF d = 1 THEN a ELSE MMulLimbC(a, d, 1, 0, <<>>)

MShiftLimbs(m, k) == IF m = <<>> \/ k = 0 THEN m ELSE [i \in 1..(Len(m) + k) |-> IF i <= k THEN 0 ELSE m[i - k]]

RECURSIVE MMulAcc(_, _, _, _)
MMulAcc(a, b, j, acc) ==
    IF j > Len(b) THEN acc
    ELSE MMulAcc(a, b, j + 1,
                 IF b[j] = 0 THEN acc ELSE MAdd(acc, MShiftLimbs(MMulLimb(a, b[j]), j - 1)))
MMul(a, b) == IF a = <<>> \/ b = <<>> THEN <<>>
              ELSE IF Len(b) <= Len(a) THEN MMulAcc(a, b, 1, <<>>) ELSE MMulAcc(b, a, 1, <<>>)

(* short division by one limb 0 < d < BASE: [q, r] *)
RECURSIVE MDivLimbC(_, _, _, _, _)
MDivLimbC(a, d, i, r, acc) ==
    IF i = 0 THEN [q |-> MNorm(acc), r |-> r]
    ELSE LET cur == r * BASE + a[i]
         IN MDivLimbC(a, d, i - 1, cur % d, [acc EXCEPT ![i] = cur \div d])
MDivLimb(a, d) == IF a = <<>> THEN [q |-> <<>>, r |-> 0] ELSE MDivLimbC(a, d, Len(a), 0, a)

RECURSIVE TopBits(_)
TopBits(x) == IF x = 0 THEN 0 ELSE 1 + TopBits(x \div 2)
MBitLen(m) == IF m = <<>> THEN 0 ELSE LB * (Len(m) - 1) + TopBits(m[Len(m)])

(* bit i (0 = least significant) *)
MBit(m, i) == LET k == (i \div LB) + 1 IN IF k > Len(m) THEN 0 ELSE (m[k] \div (2 ^ (i % LB))) % 2

MShl(m, k) == IF m = <<>> \/ k = 0 THEN m ELSE MShiftLimbs(MMulLimb(m, 2 ^ (k % LB)), k \div LB)
MDropLimbs(m, k) == IF k >= Len(m) THEN <<>> ELSE IF k = 0 THEN m ELSE SubSeq(m, k + 1, Len(m))
(* floor(m / 2^k) *)
MShr(m, k) == IF k = 0 THEN m
              ELSE LET d == MDropLimbs(m, k \div LB)
                   IN IF k % LB = 0 THEN d ELSE MDivLimb(d, 2 ^ (k % LB)).q
(* m mod 2^k *)
MLowBits(m, k) == IF k = 0 THEN <<>>
                  ELSE LET full == k \div LB
                           part == k % LB
                           n    == IF part = 0 THEN full ELSE full + 1
                       IN IF Len(m) < n THEN m
                          ELSE MNorm([i \in 1..n |-> IF i <= full THEN m[i] ELSE m[i] % (2 ^ part)])
MPow2(k) == MShl(<<1>>, k)
MIsEven(m) == m = <<>> \/ m[1] % 2 = 0

(* long division by limbs (Knuth D with a simple correction loop): [q, r]; Len(b) >= 2 *)
RECURSIVE MDivFix(_, _, _)
MDivFix(v, R, qh) == IF qh > 0 /\ MCmp(MMulLimb(v, qh), R) > 0 THEN MDivFix(v, R, qh - 1) ELSE qh
RECURSIVE MDivLimbs(_, _, _, _, _)
MDivLimbs(u, v, j, q, R) ==
    IF j = 0 THEN [q |-> MNorm(q), r |-> R]
    ELSE LET n  == Len(v)
             R1 == IF R = <<>> THEN (IF u[j] = 0 THEN <<>> ELSE <<u[j]>>) ELSE <<u[j]>> \o R
             est == IF Len(R1) < n THEN 0
                    ELSE IF Len(R1) = n THEN R1[n] \div v[n]
                    ELSE IMin(BASE - 1, (R1[n + 1] * BASE + R1[n]) \div v[n])
             qh == IF est = 0 THEN 0 ELSE MDivFix(v, R1, est)
         IN MDivLimbs(u, v, j - 1, [q EXCEPT ![j] = qh], IF qh = 0 THEN R1 ELSE MSub(R1, MMulLimb(v, qh)))
MDivMod(a, b) == IF Len(b) = 1 THEN LET d == MDivLimb(a, b[1]) IN [q |-> d.q, r |-> IF d.r = 0 THEN <<>> ELSE <<d.r>>]
                 ELSE IF MCmp(a, b) < 0 THEN [q |-> <<>>, r |-> a]
                 ELSE LET sh == LB - TopBits(b[Len(b)])
                          d  == MDivLimbs(MShl(a, sh), MShl(b, sh), Len(MShl(a, sh)), MShl(a, sh), <<>>)
                      IN [q |-> d.q, r |-> MShr(d.r, sh)]

RECURSIVE MFromNat(_)
MFromNat(n) == IF n = 0 THEN <<>> ELSE <<n % BASE>> \o MFromNat(n \div BASE)

RECURSIVE MPow(_, _)
MPow(a, k) == IF k = 0 THEN <<1>>
              ELSE IF k % 2 = 0 THEN LET h == MPow(a, k \div 2) IN MMul(h, h)
              ELSE MMul(a, MPow(a, k - 1))

(* small magnitudes back to a TLC integer (caller guarantees < 2^31) *)
RECURSIVE MToNatAt(_, _)
MToNatAt(m, i) == IF i > Len(m) THEN 0 ELSE m[i] + BASE * MToNatAt(m, i + 1)
MToNat(m) == MToNatAt(m, 1)
MFitsNat(m) == Len(m) <= 2 \/ (Len(m) = 3 /\ m[3] = 1 /\ FALSE)   \* < 2^30

(* decimal digits, most significant first; <<0>> for zero *)
RECURSIVE MDigitsAcc(_, _)
MDigitsAcc(m, acc) == IF m = <<>> THEN acc
                      ELSE LET d == MDivLimb(m, 10) IN MDigitsAcc(d.q, <<d.r>> \o acc)
MDigits(m) == IF m = <<>> THEN <<0>> ELSE MDigitsAcc(m, <<>>)
RECURSIVE MFromDigitsAt(_, _, _, _)
MFromDigitsAt(ds, base, i, acc) ==
    IF i > Len(ds) THEN acc
    ELSE MFromDigitsAt(ds, base, i + 1, MAdd(MMulLimb(acc, base), MFromNat(ds[i])))
MFromDigits(ds, base) == MFromDigitsAt(ds, base, 1, <<>>)

----------------------------------------------------------------------------
(* signed numbers *)

BZero == [s |-> 0, m |-> <<>>]
BMk(s, m) == LET n == MNorm(m) IN IF n = <<>> \/ s = 0 THEN BZero ELSE [s |-> s, m |-> n]
BOne  == [s |-> 1, m |-> <<1>>]
BFromInt(n) == IF n = 0 THEN BZero ELSE IF n > 0 THEN [s |-> 1, m |-> MFromNat(n)] ELSE [s |-> -1, m |-> MFromNat(-n)]
BNeg(a) == [s |-> -a.s, m |-> a.m]
BAbs(a) == [s |-> IF a.s = 0 THEN 0 ELSE 1, m |-> a.m]
BIsZero(a) == a.s = 0

BCmp(a, b) == IF a.s # b.s THEN (IF a.s < b.s THEN -1 ELSE 1)
              ELSE IF a.s = 0 THEN 0
              ELSE a.s * MCmp(a.m, b.m)
BLt(a, b) == BCmp(a, b) < 0
BLe(a, b) == BCmp(a, b) <= 0
BEq(a, b) == a = b

BAdd(a, b) == IF a.s = 0 THEN b ELSE IF b.s = 0 THEN a
              ELSE IF a.s = b.s THEN [s |-> a.s, m |-> MAdd(a.m, b.m)]
              ELSE LET c == MCmp(a.m, b.m)
                   IN IF c = 0 THEN BZero
                      ELSE IF c > 0 THEN [s |-> a.s, m |-> MSub(a.m, b.m)]
                      ELSE [s |-> b.s, m |-> MSub(b.m, a.m)]
BSub(a, b) == BAdd(a, BNeg(b))
BMul(a, b) == IF a.s = 0 \/ b.s = 0 THEN BZero ELSE [s |-> a.s * b.s, m |-> MMul(a.m, b.m)]
(* truncating quotient and remainder with the sign of the dividend; b # 0 *)
BDivT(a, b) == IF a.s = 0 THEN BZero ELSE BMk(a.s * b.s, MDivMod(a.m, b.m).q)
BRemT(a, b) == IF a.s = 0 THEN BZero ELSE BMk(a.s, MDivMod(a.m, b.m).r)
BPow2(k) == [s |-> 1, m |-> MPow2(k)]
BInRange(a, lo, hi) == BCmp(lo, a) <= 0 /\ BCmp(a, hi) <= 0
BToInt(a) == a.s * MToNat(a.m)
BFitsInt(a) == Len(a.m) <= 2
IsBig(a) == /\ DOMAIN a = {"s", "m"}
            /\ a.s \in {-1, 0, 1}
            /\ (a.s = 0) = (a.m = <<>>)
            /\ \A i \in 1..Len(a.m) : a.m[i] \in 0..(BASE - 1)
            /\ (a.m # <<>> => a.m[Len(a.m)] # 0)
=============================================================================
