------------------------------- MODULE MC_Lazy -------------------------------
(***************************************************************************)
(* Exhaustive agreement of the compiled program on the VM with the        *)
(* reference evaluator, for every tree of a bounded family over an atom   *)
(* set with truthy, falsy, non-boolean, failing, unbound, stored-program  *)
(* and call-recording atoms: RunProgram(Compile(t)) satisfies Eval(t),    *)
(* with the same call log whenever the reference determines it.           *)
(* One state per tree: first-level trees are the initial states, a        *)
(* transition wraps a tree in one more operator.                           *)
(***************************************************************************)
EXTENDS Compile, TLC, FiniteSets

Lit(v) == [k |-> "lit", v |-> v]
Id(n) == [k |-> "id", n |-> n]
Call(f, args) == [k |-> "call", f |-> f, args |-> args]
MCall(r, f, args) == [k |-> "mcall", r |-> r, f |-> f, fc |-> <<>>, args |-> args]
Bin(op, l, r) == [k |-> "bin", op |-> op, l |-> l, r |-> r]
Tern(c, a, b) == [k |-> "tern", c |-> c, a |-> a, b |-> b]
Un(op, n, e) == [k |-> "un", op |-> op, n |-> n, e |-> e]
Paren(e) == [k |-> "paren", e |-> e]
ListT(es) == [k |-> "list", es |-> es]

One == VInt(BFromInt(1))
Zero == VInt(BFromInt(0))
FStrT(a) == [k |-> "fstr", segs |-> <<[s |-> <<120>>], [e |-> a]>>]
MapT(ke, ve) == [k |-> "map", kv |-> <<<<ke, ve>>>>]
SelT(e, f, fc) == [k |-> "sel", e |-> e, f |-> f, fc |-> fc]
IdxT(e, i) == [k |-> "idx", e |-> e, i |-> i]
MatchT(e, pv, arm, other) == [k |-> "match", e |-> e, cases |-> <<[p |-> [pk |-> "cmp", op |-> "==", v |-> pv], e |-> arm], [p |-> [pk |-> "any"], e |-> other]>>]
SizeName == <<115, 105, 122, 101>>
Atoms == {Lit(VTrue), Lit(VFalse), Lit(One), Lit(VStr(<<>>)), Lit(VNull),
          Id("x"), Id("z"), Id("u"), Id("pbad"), Id("pok"), Id("int"),
          Call("f", <<>>), Call("g", <<>>), Call("h", <<>>),
          \* operands that fail in their own ways: an f-string with a failing segment, a map with a key that is not a string
          \* (built at run time, and folded), a method that is selected but not called, a field of that name, an index out of range
          FStrT(Call("g", <<>>)), FStrT(Id("u")), FStrT(Lit(VStr(<<97>>))),
          MapT(Call("h", <<>>), Lit(One)), MapT(Lit(One), Lit(One)), MapT(Lit(VStr(<<107>>)), Call("f", <<>>)),
          SelT(ListT(<<Id("x")>>), "size", SizeName), SelT(MapT(Lit(VStr(SizeName)), Id("x")), "size", SizeName),
          IdxT(ListT(<<Id("x")>>), Lit(One)),
          MatchT(Id("z"), Lit(Zero), Call("f", <<>>), Call("g", <<>>)), MatchT(Call("h", <<>>), Lit(One), Id("u"), Lit(VNull))}
Small == {Lit(VTrue), Lit(VFalse), Id("u"), Call("f", <<>>), Call("g", <<>>), Id("pbad")}

Vars == [x |-> VTrue, z |-> Zero]
ProgTrees == [pbad |-> Bin("/", Lit(One), Id("z")), pok |-> Bin("||", Call("h", <<>>), Id("x"))]
Funcs == [f |-> Ok(VTrue), g |-> Err("other"), h |-> Ok(Zero)]
EnvE == Env0(Vars, ProgTrees, Funcs)
EnvV == [vars |-> Vars, progs |-> [n \in DOMAIN ProgTrees |-> Compile(ProgTrees[n])], funcs |-> Funcs]

L1 == Atoms
      \cup {Un("!", n, a) : n \in 1..2, a \in Atoms}
      \cup {Bin(op, a, b) : op \in {"||", "&&", "==", "+"}, a \in Atoms, b \in Atoms}
      \cup {Tern(c, a, b) : c \in Atoms, a \in Small, b \in Small}
      \cup {Call("has", <<a>>) : a \in Atoms}
      \cup {Call("coalesce", <<a, b>>) : a \in Atoms, b \in Small}
      \cup {Call("f", <<a>>) : a \in Atoms}
      \cup {Call("f", <<a, b>>) : a \in Small, b \in Small}
      \cup {MCall(ListT(<<a, b>>), m, <<Id("v"), Bin("||", Id("v"), c)>>) : m \in {"all", "exists", "exists_one", "filter", "map"}, a \in Small, b \in Small, c \in Small}
      \cup {MCall(ListT(<<a, b>>), "reduce", <<Id("acc"), Id("v"), Bin("&&", Id("acc"), Id("v")), c>>) : a \in Small, b \in Small, c \in Small}
      \cup {ListT(<<a, b>>) : a \in Small, b \in Small}
(* the second level wraps a first-level tree once more; computed as successor states so that all workers share it *)
Wrap(a) ==
         {Bin(op, a, b) : op \in {"||", "&&"}, b \in Small}
    \cup {Bin(op, b, a) : op \in {"||", "&&"}, b \in Small}
    \cup {Bin(op, Paren(a), b) : op \in {"||", "&&"}, b \in Small}
    \cup {Tern(a, b, c) : b \in {Lit(One), Call("f", <<>>)}, c \in {Id("u"), Call("h", <<>>)}}
    \cup {Tern(c, a, Call("h", <<>>)) : c \in Small}
    \cup {Un("!", 1, a), Call("has", <<a>>), Call("f", <<a>>)}
    \cup {Call("coalesce", <<a, b>>) : b \in {Lit(One), Call("g", <<>>)}}
    \cup {MCall(ListT(<<Lit(One), Lit(Zero)>>), m, <<Id("v"), Bin("||", Id("v"), a)>>) : m \in {"all", "exists", "map"}}

CONSTANT Levels
VARIABLES t, lvl
Init == t \in L1 /\ lvl = 1
Next == lvl < Levels /\ lvl' = lvl + 1 /\ t' \in Wrap(t)
HasDepth(log) == \E i \in 1..Len(log) : log[i] = "#depth"
Agree(tr) ==
    LET r == RunProgram(Compile(tr), EnvV)
        e == Eval(tr, EnvE)
    IN \/ r.unk
       \/ HasDepth(r.log) \/ HasDepth(e.log)
       \/ /\ Matches(r.out, e.o)
          /\ e.lk => r.log = e.log
(* the same for the folding compiler: what it computes at compile time is invisible (C09) *)
AgreeF(tr) ==
    LET r == RunProgram(CompileF(tr), EnvV)
        e == Eval(tr, EnvE)
    IN \/ r.unk
       \/ HasDepth(r.log) \/ HasDepth(e.log)
       \/ /\ Matches(r.out, e.o)
          /\ e.lk => r.log = e.log
InvF == IF AgreeF(t) THEN TRUE ELSE (PrintT(<<"DISAGREE-FOLD", t, CompileF(t), RunProgram(CompileF(t), EnvV), Eval(t, EnvE)>>) /\ FALSE)
Inv == IF Agree(t) THEN TRUE ELSE (PrintT(<<"DISAGREE", t, RunProgram(Compile(t), EnvV), Eval(t, EnvE)>>) /\ FALSE)
(* the comparison is not vacuous: count the trees on which the VM result is determined and the reference fixes one outcome and one log *)
Determined(tr) == ~RunProgram(Compile(tr), EnvV).unk /\ Eval(tr, EnvE).o.o \in {"ok", "err"} /\ Eval(tr, EnvE).lk
DeterminedF(tr) == ~RunProgram(CompileF(tr), EnvV).unk /\ Eval(tr, EnvE).o.o \in {"ok", "err"} /\ Eval(tr, EnvE).lk
ASSUME Levels = 1 \/ PrintT(<<"L1", Cardinality(L1), "determined", Cardinality({x \in L1 : Determined(x)}), "determined with folding", Cardinality({x \in L1 : DeterminedF(x)}),
                "folded to a constant", Cardinality({x \in L1 : F(x).c})>>)
=============================================================================
