----------------------------- MODULE Trace_BC -----------------------------
(***************************************************************************)
(* Validation of the real bytecode of compiled programs (C10, C09 clock). *)
(* Part 1 (Step): one verdict per recorded program from the forward       *)
(* analysis.  Part 2 (Walk): the AbsVM state machine over every block of  *)
(* every program, both successors of every conditional jump, with the     *)
(* invariants of C10 evaluated in every reachable (program, block, pc,    *)
(* height).                                                                *)
(***************************************************************************)
EXTENDS AbsVM, TLC, Json, IOUtils

CONSTANT Mode      \* "verdicts" | "walk"
Rec == ndJsonDeserialize(IOEnv.TRACE)

VARIABLES mode, l, p, b, pc, h
vars == <<mode, l, p, b, pc, h>>

Init == \/ Mode = "verdicts" /\ mode = "verdicts" /\ l = 1 /\ p = 0 /\ b = 0 /\ pc = 0 /\ h = 0
        \/ /\ Mode = "walk" /\ mode = "walk" /\ l = 0
           /\ p \in {q \in 1..Len(Rec) : "blocks" \in DOMAIN Rec[q]}
           /\ b \in 1..Len(Rec[p].blocks) /\ pc = 0 /\ h = 0

Clock(r) == IF "clock" \in DOMAIN r THEN r.clock ELSE 0
Verdict(r) == IF ~("blocks" \in DOMAIN r) THEN "ok"
              ELSE LET w == WellFormed(r.blocks)
                   IN IF w # "ok" THEN w
                      ELSE IF ClockCalls(r.blocks) < Clock(r) THEN "frozen-clock"
                      ELSE IF "tick" \in DOMAIN r /\ r.tick[1].o = "ok" /\ r.tick[1] = r.tick[2] THEN "clock-did-not-tick"
                      ELSE "ok"

Step == /\ mode = "verdicts" /\ l <= Len(Rec)
        /\ LET v == Verdict(Rec[l]) IN IF v = "ok" THEN TRUE ELSE PrintT(<<"VERDICT", Rec[l].id, v>>)
        /\ l' = l + 1 /\ UNCHANGED <<mode, p, b, pc, h>>
Done == /\ mode = "verdicts" /\ l = Len(Rec) + 1
        /\ PrintT(<<"SUMMARY", Len(Rec), 0, Len(Rec), 0>>)
        /\ l' = l + 1 /\ UNCHANGED <<mode, p, b, pc, h>>

Code == Rec[p].blocks[b]
Walk == /\ mode = "walk" /\ pc >= 0 /\ pc < Len(Code)
        /\ LET i == Code[pc + 1] IN
           /\ h' = h - Pops(i) + Pushes(i)
           /\ pc' \in Succs(i, pc)
        /\ UNCHANGED <<mode, l, p, b>>
Next == Step \/ Done \/ Walk

Walking == mode = "walk"
NoUnderflow   == Walking /\ pc >= 0 /\ pc < Len(Code) => h >= Pops(Code[pc + 1])
InRange       == Walking => pc >= 0 /\ pc <= Len(Code)
ForwardOnly   == Walking /\ pc >= 0 /\ pc < Len(Code) /\ Code[pc + 1].op \in {"JMP", "JMPC"} => Code[pc + 1].d >= 0
OneValueAtEnd == Walking /\ pc = Len(Code) => h = 1
=============================================================================
