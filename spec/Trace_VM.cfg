CONSTANT W = 64
INIT Init
NEXT Next
POSTCONDITION Accepted
CHECK_DEADLOCK FALSE
